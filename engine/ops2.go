package main

// Operators over mixed concrete/symbolic values.

import (
	"fmt"
	"go/token"
	"go/types"
	"math"
	"math/big"
	"unicode/utf8"

	"golang.org/x/tools/go/ssa"
)

// symAddr is the address of slice/array element at a symbolic index. It is
// resolved lazily: loads of scalars become ite-chains, anything else forks
// over the feasible concrete indices.
type symAddr struct {
	elems  []value
	idx    *Term
	signed bool
}

type basicInfo struct {
	kind   types.BasicKind
	width  int
	signed bool
	isInt  bool
	isBool bool
	isStr  bool
	isFlt  bool
}

func infoOf(t types.Type) (bi basicInfo, ok bool) {
	if t == nil {
		return bi, false
	}
	b, isb := t.Underlying().(*types.Basic)
	if !isb {
		return bi, false
	}
	bi.kind = b.Kind()
	switch b.Kind() {
	case types.Bool, types.UntypedBool:
		bi.isBool = true
	case types.Int, types.Int64, types.UntypedInt:
		bi.width, bi.signed, bi.isInt = 64, true, true
	case types.Int8:
		bi.width, bi.signed, bi.isInt = 8, true, true
	case types.Int16:
		bi.width, bi.signed, bi.isInt = 16, true, true
	case types.Int32, types.UntypedRune:
		bi.width, bi.signed, bi.isInt = 32, true, true
	case types.Uint, types.Uint64, types.Uintptr:
		bi.width, bi.isInt = 64, true
	case types.Uint8:
		bi.width, bi.isInt = 8, true
	case types.Uint16:
		bi.width, bi.isInt = 16, true
	case types.Uint32:
		bi.width, bi.isInt = 32, true
	case types.String, types.UntypedString:
		bi.isStr = true
	case types.Float64, types.Float32, types.UntypedFloat:
		bi.isFlt = true
	default:
		return bi, false
	}
	return bi, true
}

// toTerm converts a scalar value to a term.
func (m *Machine) toTerm(v value) *Term {
	switch x := v.(type) {
	case *Term:
		return x
	case bool:
		return m.ts.Bool(x)
	case int:
		return m.ts.BVConst(uint64(x), 64)
	case int8:
		return m.ts.BVConst(uint64(x), 8)
	case int16:
		return m.ts.BVConst(uint64(x), 16)
	case int32:
		return m.ts.BVConst(uint64(x), 32)
	case int64:
		return m.ts.BVConst(uint64(x), 64)
	case uint:
		return m.ts.BVConst(uint64(x), 64)
	case uint8:
		return m.ts.BVConst(uint64(x), 8)
	case uint16:
		return m.ts.BVConst(uint64(x), 16)
	case uint32:
		return m.ts.BVConst(uint64(x), 32)
	case uint64:
		return m.ts.BVConst(x, 64)
	case uintptr:
		return m.ts.BVConst(uint64(x), 64)
	case float64:
		if x != math.Trunc(x) || math.Abs(x) >= 1<<53 || math.IsNaN(x) || math.IsInf(x, 0) {
			panic(unsupported{fmt.Sprintf("non-integer or huge concrete float64 %v mixed with a symbolic cost", x)})
		}
		return m.ts.IntConst(big.NewInt(int64(x)))
	}
	panic(fmt.Sprintf("toTerm: unexpected %T", v))
}

// fromTerm returns the concrete Go value if t is constant, else t itself.
func (m *Machine) fromTerm(t *Term, typ types.Type) value {
	if !t.IsConst() {
		return t
	}
	switch t.Sort.K {
	case SBool:
		return t.IVal == 1
	case SInt:
		f, _ := new(big.Float).SetInt(t.Big).Float64()
		return f
	}
	bi, ok := infoOf(typ)
	if !ok || !bi.isInt {
		panic(fmt.Sprintf("fromTerm: constant bit-vector for non-integer type %v", typ))
	}
	s := signExt(t.IVal, t.Sort.W)
	switch bi.kind {
	case types.Int, types.UntypedInt:
		return int(s)
	case types.Int8:
		return int8(s)
	case types.Int16:
		return int16(s)
	case types.Int32, types.UntypedRune:
		return int32(s)
	case types.Int64:
		return int64(s)
	case types.Uint:
		return uint(t.IVal)
	case types.Uint8:
		return uint8(t.IVal)
	case types.Uint16:
		return uint16(t.IVal)
	case types.Uint32:
		return uint32(t.IVal)
	case types.Uint64:
		return uint64(t.IVal)
	case types.Uintptr:
		return uintptr(t.IVal)
	}
	panic("fromTerm: kind")
}

func isZeroInt(v value) bool {
	switch x := v.(type) {
	case int:
		return x == 0
	case int8:
		return x == 0
	case int16:
		return x == 0
	case int32:
		return x == 0
	case int64:
		return x == 0
	case uint:
		return x == 0
	case uint8:
		return x == 0
	case uint16:
		return x == 0
	case uint32:
		return x == 0
	case uint64:
		return x == 0
	case uintptr:
		return x == 0
	}
	return false
}

func (m *Machine) binop(op token.Token, tx, ty types.Type, x, y value) value {
	switch op {
	case token.EQL:
		return m.eqValue(tx, x, y)
	case token.NEQ:
		return m.notValue(m.eqValue(tx, x, y))
	}
	_, xs := x.(*Term)
	_, ys := y.(*Term)
	_, xss := x.(sstr)
	_, yss := y.(sstr)
	if !xs && !ys && !xss && !yss {
		if (op == token.QUO || op == token.REM) && isZeroInt(y) {
			m.tpanic("runtime error: integer divide by zero")
		}
		if op == token.SHL || op == token.SHR {
			if _, ok := asUnsigned(y); !ok {
				m.tpanic("runtime error: negative shift amount")
			}
		}
		if m.narrow && (op == token.ADD || op == token.SUB || op == token.MUL) {
			m.narrowArith(op, x, y)
		}
		return concreteBinop(op, tx, x, y)
	}
	if xss || yss {
		if op == token.ADD {
			b := append(append([]value{}, strBytes(x)...), strBytes(y)...)
			return mkStr(b)
		}
		panic(unsupported{"ordered comparison of symbolic strings"})
	}
	bi, ok := infoOf(tx)
	if !ok {
		panic(fmt.Sprintf("symbolic binop on non-basic type %v", tx))
	}
	a, b := m.toTerm(x), m.toTerm(y)
	ts := m.ts
	switch {
	case bi.isBool:
		switch op {
		case token.LAND, token.AND:
			return m.fromTerm(ts.And(a, b), tx)
		case token.LOR, token.OR:
			return m.fromTerm(ts.Or(a, b), tx)
		}
	case bi.isFlt:
		switch op {
		case token.ADD:
			return m.fromTerm(ts.IBin(OpIAdd, a, b), tx)
		case token.SUB:
			return m.fromTerm(ts.IBin(OpISub, a, b), tx)
		case token.MUL:
			return m.fromTerm(ts.IBin(OpIMul, a, b), tx)
		case token.LSS:
			return m.fromTerm(ts.ICmp(OpILt, a, b), nil)
		case token.LEQ:
			return m.fromTerm(ts.ICmp(OpILe, a, b), nil)
		case token.GTR:
			return m.fromTerm(ts.ICmp(OpILt, b, a), nil)
		case token.GEQ:
			return m.fromTerm(ts.ICmp(OpILe, b, a), nil)
		}
		panic(unsupported{"float op " + op.String() + " on symbolic cost"})
	case bi.isInt:
		switch op {
		case token.ADD:
			return m.fromTerm(ts.BVBin(OpAdd, a, b), tx)
		case token.SUB:
			return m.fromTerm(ts.BVBin(OpSub, a, b), tx)
		case token.MUL:
			return m.fromTerm(ts.BVBin(OpMul, a, b), tx)
		case token.QUO, token.REM:
			zero := ts.BVConst(0, bi.width)
			if m.branch(ts.Eq(b, zero)) {
				m.tpanic("runtime error: integer divide by zero")
			}
			var o Op
			switch {
			case op == token.QUO && bi.signed:
				o = OpSDiv
			case op == token.QUO:
				o = OpUDiv
			case bi.signed:
				o = OpSRem
			default:
				o = OpURem
			}
			return m.fromTerm(ts.BVBin(o, a, b), tx)
		case token.AND:
			return m.fromTerm(ts.BVBin(OpBAnd, a, b), tx)
		case token.OR:
			return m.fromTerm(ts.BVBin(OpBOr, a, b), tx)
		case token.XOR:
			return m.fromTerm(ts.BVBin(OpBXor, a, b), tx)
		case token.AND_NOT:
			return m.fromTerm(ts.BVBin(OpBAnd, a, ts.BVUn(OpBNot, b)), tx)
		case token.SHL, token.SHR:
			by, _ := infoOf(ty)
			if by.signed {
				if m.branch(ts.BVCmp(OpSlt, b, ts.BVConst(0, by.width))) {
					m.tpanic("runtime error: negative shift amount")
				}
			}
			var cnt *Term
			switch {
			case by.width == bi.width:
				cnt = b
			case by.width < bi.width:
				cnt = ts.ZExt(b, bi.width)
			default:
				big := ts.BVCmp(OpUle, ts.BVConst(uint64(bi.width), by.width), b)
				cnt = ts.Ite(big, ts.BVConst(uint64(bi.width), bi.width), ts.Extract(b, bi.width-1, 0))
			}
			switch {
			case op == token.SHL:
				return m.fromTerm(ts.BVBin(OpShl, a, cnt), tx)
			case bi.signed:
				return m.fromTerm(ts.BVBin(OpAShr, a, cnt), tx)
			default:
				return m.fromTerm(ts.BVBin(OpLShr, a, cnt), tx)
			}
		case token.LSS:
			if bi.signed {
				return m.fromTerm(ts.BVCmp(OpSlt, a, b), nil)
			}
			return m.fromTerm(ts.BVCmp(OpUlt, a, b), nil)
		case token.LEQ:
			if bi.signed {
				return m.fromTerm(ts.BVCmp(OpSle, a, b), nil)
			}
			return m.fromTerm(ts.BVCmp(OpUle, a, b), nil)
		case token.GTR:
			if bi.signed {
				return m.fromTerm(ts.BVCmp(OpSlt, b, a), nil)
			}
			return m.fromTerm(ts.BVCmp(OpUlt, b, a), nil)
		case token.GEQ:
			if bi.signed {
				return m.fromTerm(ts.BVCmp(OpSle, b, a), nil)
			}
			return m.fromTerm(ts.BVCmp(OpUle, b, a), nil)
		}
	}
	panic(fmt.Sprintf("invalid symbolic binary op: %s on %v", op, tx))
}

func (m *Machine) notValue(v value) value {
	switch b := v.(type) {
	case bool:
		return !b
	case *Term:
		return m.fromTerm(m.ts.Not(b), nil)
	}
	panic("notValue")
}

func (m *Machine) andValue(a, b value) value {
	if x, ok := a.(bool); ok {
		if !x {
			return false
		}
		return b
	}
	if y, ok := b.(bool); ok {
		if !y {
			return false
		}
		return a
	}
	return m.fromTerm(m.ts.And(a.(*Term), b.(*Term)), nil)
}

func (m *Machine) orValue(a, b value) value {
	return m.notValue(m.andValue(m.notValue(a), m.notValue(b)))
}

// eqValue implements Go's == for type t; the result is a bool or a Bool term.
func (m *Machine) eqValue(t types.Type, x, y value) value {
	switch t.Underlying().(type) {
	case *types.Map, *types.Signature, *types.Slice:
		// only comparison with nil is legal
		return isNilRef(x) == isNilRef(y)
	}
	return m.equals(t, x, y)
}

func isNilRef(v value) bool {
	switch x := v.(type) {
	case *mapV:
		return x == nil
	case *ssa.Function:
		return x == nil
	case *closure:
		return x == nil
	case *nativeFn:
		return x == nil
	case *ssa.Builtin:
		return x == nil
	case []value:
		return x == nil
	}
	panic(fmt.Sprintf("isNilRef: %T", v))
}

func (m *Machine) equals(t types.Type, x, y value) value {
	// symbolic scalars
	_, xs := x.(*Term)
	_, ys := y.(*Term)
	if xs || ys {
		return m.fromTerm(m.ts.Eq(m.toTerm(x), m.toTerm(y)), nil)
	}
	switch x := x.(type) {
	case bool:
		return x == y.(bool)
	case int:
		return x == y.(int)
	case int8:
		return x == y.(int8)
	case int16:
		return x == y.(int16)
	case int32:
		return x == y.(int32)
	case int64:
		return x == y.(int64)
	case uint:
		return x == y.(uint)
	case uint8:
		return x == y.(uint8)
	case uint16:
		return x == y.(uint16)
	case uint32:
		return x == y.(uint32)
	case uint64:
		return x == y.(uint64)
	case uintptr:
		return x == y.(uintptr)
	case float32:
		return x == y.(float32)
	case float64:
		return x == y.(float64)
	case complex64:
		return x == y.(complex64)
	case complex128:
		return x == y.(complex128)
	case string:
		if ys, ok := y.(string); ok {
			return x == ys
		}
		return m.strEq(x, y)
	case sstr:
		return m.strEq(x, y)
	case *value:
		return x == y.(*value)
	case *chanV:
		return x == y.(*chanV)
	case structure:
		ys := y.(structure)
		tStruct := t.Underlying().(*types.Struct)
		var res value = true
		for i, n := 0, tStruct.NumFields(); i < n; i++ {
			f := tStruct.Field(i)
			if f.Name() == "_" {
				continue
			}
			res = m.andValue(res, m.equals(f.Type(), x[i], ys[i]))
			if b, ok := res.(bool); ok && !b {
				return false
			}
		}
		return res
	case array:
		ya := y.(array)
		tElt := t.Underlying().(*types.Array).Elem()
		var res value = true
		for i := range x {
			res = m.andValue(res, m.equals(tElt, x[i], ya[i]))
			if b, ok := res.(bool); ok && !b {
				return false
			}
		}
		return res
	case iface:
		yi := y.(iface)
		if !sameType(x.t, yi.t) {
			return false
		}
		if x.t == nil {
			return true
		}
		if !types.Comparable(x.t) {
			m.tpanic("runtime error: comparing uncomparable type %s", x.t)
		}
		return m.equals(x.t, x.v, yi.v)
	}
	m.tpanic("runtime error: comparing uncomparable type %s", t)
	return nil
}

func (m *Machine) strEq(x, y value) value {
	xb, yb := strBytes(x), strBytes(y)
	if len(xb) != len(yb) {
		return false
	}
	var res value = true
	for i := range xb {
		_, xs := xb[i].(*Term)
		_, ys := yb[i].(*Term)
		var e value
		if !xs && !ys {
			e = xb[i].(uint8) == yb[i].(uint8)
		} else {
			e = m.fromTerm(m.ts.Eq(m.toTerm(xb[i]), m.toTerm(yb[i])), nil)
		}
		res = m.andValue(res, e)
		if b, ok := res.(bool); ok && !b {
			return false
		}
	}
	return res
}

func (m *Machine) unop(instr *ssa.UnOp, x value) value {
	switch instr.Op {
	case token.ARROW:
		v, ok := m.chanRecv(x, instr.X.Type())
		if instr.CommaOk {
			return tuple{v, ok}
		}
		return v
	case token.MUL:
		return m.loadAddr(mustDeref(instr.X.Type()), x)
	}
	if t, ok := x.(*Term); ok {
		switch instr.Op {
		case token.NOT:
			return m.fromTerm(m.ts.Not(t), nil)
		case token.SUB:
			if t.Sort.K == SInt {
				return m.fromTerm(m.ts.IBin(OpISub, m.ts.IntConst64(0), t), instr.Type())
			}
			return m.fromTerm(m.ts.BVUn(OpNeg, t), instr.Type())
		case token.XOR:
			return m.fromTerm(m.ts.BVUn(OpBNot, t), instr.Type())
		}
		panic(fmt.Sprintf("invalid symbolic unary op %s", instr.Op))
	}
	switch instr.Op {
	case token.SUB:
		switch x := x.(type) {
		case int:
			return -x
		case int8:
			return -x
		case int16:
			return -x
		case int32:
			return -x
		case int64:
			return -x
		case uint:
			return -x
		case uint8:
			return -x
		case uint16:
			return -x
		case uint32:
			return -x
		case uint64:
			return -x
		case uintptr:
			return -x
		case float32:
			return -x
		case float64:
			return -x
		case complex64:
			return -x
		case complex128:
			return -x
		}
	case token.NOT:
		return !x.(bool)
	case token.XOR:
		switch x := x.(type) {
		case int:
			return ^x
		case int8:
			return ^x
		case int16:
			return ^x
		case int32:
			return ^x
		case int64:
			return ^x
		case uint:
			return ^x
		case uint8:
			return ^x
		case uint16:
			return ^x
		case uint32:
			return ^x
		case uint64:
			return ^x
		case uintptr:
			return ^x
		}
	}
	panic(fmt.Sprintf("invalid unary op %s %T", instr.Op, x))
}

// ptr resolves an address value to a concrete slot (forking on symAddr).
func (m *Machine) ptr(v value) *value {
	switch p := v.(type) {
	case *value:
		return m.derefCheck(p)
	case *symAddr:
		i := m.pickIndex(p.idx, len(p.elems))
		return &p.elems[i]
	}
	panic(fmt.Sprintf("ptr: unexpected %T", v))
}

func scalarValue(v value) bool {
	switch v.(type) {
	case bool, int, int8, int16, int32, int64, uint, uint8, uint16, uint32, uint64, uintptr, *Term:
		return true
	}
	return false
}

func (m *Machine) loadAddr(T types.Type, a value) value {
	if sa, ok := a.(*symAddr); ok {
		// ite-chain over scalar elements
		all := true
		for _, e := range sa.elems {
			if !scalarValue(e) {
				all = false
				break
			}
		}
		if all && len(sa.elems) > 0 {
			res := m.exactIteChain(sa)
			return m.fromTerm(res, T)
		}
		return load(T, m.ptr(sa))
	}
	return load(T, m.derefCheck(a.(*value)))
}

// exactIteChain builds ite(idx==0,e0, ite(idx==1,e1, ... e_last)) merging runs
// of identical trailing results.
func (m *Machine) exactIteChain(sa *symAddr) *Term {
	n := len(sa.elems)
	w := sa.idx.Sort.W
	// group indices by element term
	type grp struct {
		t    *Term
		idxs []int
	}
	var groups []*grp
	byT := map[*Term]*grp{}
	for i := 0; i < n; i++ {
		e := m.toTerm(sa.elems[i])
		g := byT[e]
		if g == nil {
			g = &grp{t: e}
			byT[e] = g
			groups = append(groups, g)
		}
		g.idxs = append(g.idxs, i)
	}
	// the largest group becomes the default
	def := 0
	for i, g := range groups {
		if len(g.idxs) > len(groups[def].idxs) {
			def = i
		}
	}
	res := groups[def].t
	for i, g := range groups {
		if i == def {
			continue
		}
		c := m.ts.Bool(false)
		for _, k := range g.idxs {
			c = m.ts.Or(c, m.ts.Eq(sa.idx, m.ts.BVConst(uint64(k), w)))
		}
		res = m.ts.Ite(c, g.t, res)
	}
	return res
}

// pickIndex forks over the feasible concrete values of idx in [0,n).
func (m *Machine) pickIndex(idx *Term, n int) int {
	w := idx.Sort.W
	for i := 0; i < n-1; i++ {
		if m.branch(m.ts.Eq(idx, m.ts.BVConst(uint64(i), w))) {
			return i
		}
	}
	return n - 1
}

// boundsCheck makes the path panic if idx can be outside [0,n).
func (m *Machine) boundsCheck(idx *Term, n int, signed bool) {
	w := idx.Sort.W
	// the largest value the index type can hold
	maxVal := uint64(1)<<uint(w-1) - 1
	if !signed {
		maxVal = mask(w)
	}
	upper := m.ts.Bool(false)
	if uint64(n) <= maxVal {
		if signed {
			upper = m.ts.BVCmp(OpSle, m.ts.BVConst(uint64(n), w), idx)
		} else {
			upper = m.ts.BVCmp(OpUle, m.ts.BVConst(uint64(n), w), idx)
		}
	}
	oob := upper
	if signed {
		oob = m.ts.Or(m.ts.BVCmp(OpSlt, idx, m.ts.BVConst(0, w)), upper)
	}
	if n == 0 || m.branch(oob) {
		m.tpanic("runtime error: index out of range [symbolic] with length %d", n)
	}
}

func isSignedVal(v value) bool {
	switch v.(type) {
	case int, int8, int16, int32, int64:
		return true
	}
	return false
}

func (m *Machine) indexAddr(x, idx value, idxT types.Type) value {
	signed := true
	if bi, ok := infoOf(idxT); ok {
		signed = bi.signed
	}
	var elems []value
	switch x := x.(type) {
	case []value:
		elems = x
	case *value:
		elems = (*m.derefCheck(x)).(array)
	case *symAddr:
		elems = (*m.ptr(x)).(array)
	default:
		panic(fmt.Sprintf("unexpected x type in IndexAddr: %T", x))
	}
	if t, ok := idx.(*Term); ok {
		m.boundsCheck(t, len(elems), signed)
		return &symAddr{elems: elems, idx: t, signed: signed}
	}
	i := asInt64(idx)
	if i < 0 || i >= int64(len(elems)) {
		m.tpanic("runtime error: index out of range [%d] with length %d", i, len(elems))
	}
	return &elems[i]
}

func (m *Machine) index(x, idx value, elemT types.Type, idxT types.Type) value {
	signed := true
	if bi, ok := infoOf(idxT); ok {
		signed = bi.signed
	}
	switch x := x.(type) {
	case array:
		if t, ok := idx.(*Term); ok {
			m.boundsCheck(t, len(x), signed)
			return m.loadAddr(elemT, &symAddr{elems: x, idx: t})
		}
		i := asInt64(idx)
		if i < 0 || i >= int64(len(x)) {
			m.tpanic("runtime error: index out of range [%d] with length %d", i, len(x))
		}
		return x[i]
	case string, sstr:
		b := strBytes(x)
		if t, ok := idx.(*Term); ok {
			m.boundsCheck(t, len(b), signed)
			return m.fromTerm(m.exactIteChain(&symAddr{elems: b, idx: t}), types.Typ[types.Uint8])
		}
		i := asInt64(idx)
		if i < 0 || i >= int64(len(b)) {
			m.tpanic("runtime error: index out of range [%d] with length %d", i, len(b))
		}
		return b[i]
	}
	panic(fmt.Sprintf("unexpected x type in Index: %T", x))
}

// slice returns x[lo:hi:max].
func (m *Machine) slice(x, lo, hi, max value) value {
	var Len, Cap int
	switch x := x.(type) {
	case string:
		Len = len(x)
		Cap = Len
	case sstr:
		Len = len(x.b)
		Cap = Len
	case []value:
		Len = len(x)
		Cap = cap(x)
	case *value:
		a := (*m.derefCheck(x)).(array)
		Len = len(a)
		Cap = cap(a)
	default:
		panic(fmt.Sprintf("slice: unexpected X type: %T", x))
	}
	l := int64(0)
	if lo != nil {
		l = m.concreteInt(lo, "slice bound")
	}
	h := int64(Len)
	if hi != nil {
		h = m.concreteInt(hi, "slice bound")
	}
	mx := int64(Cap)
	if max != nil {
		mx = m.concreteInt(max, "slice bound")
	}
	switch x.(type) {
	case string, sstr:
		if l < 0 || h < l || h > int64(Len) {
			m.tpanic("runtime error: slice bounds out of range [%d:%d] with length %d", l, h, Len)
		}
	default:
		if l < 0 || h < l || mx < h || mx > int64(Cap) {
			m.tpanic("runtime error: slice bounds out of range [%d:%d:%d] with capacity %d", l, h, mx, Cap)
		}
	}
	switch x := x.(type) {
	case string:
		return x[l:h]
	case sstr:
		return mkStr(x.b[l:h])
	case []value:
		if x == nil {
			return []value(nil)
		}
		return x[l:h:mx]
	case *value:
		a := (*x).(array)
		return []value(a)[l:h:mx]
	}
	panic("unreachable")
}

// concretize forks over the feasible values of a small symbolic integer.
func (m *Machine) concretize(v value, what string) int64 {
	t, ok := v.(*Term)
	if !ok {
		return asInt64(v)
	}
	if t.IsConst() {
		return signExt(t.IVal, t.Sort.W)
	}
	for k := int64(0); k <= 64; k++ {
		if m.branch(m.ts.Eq(t, m.ts.BVConst(uint64(k), t.Sort.W))) {
			return k
		}
	}
	panic(unsupported{"symbolic " + what + " outside 0..64"})
}

func (m *Machine) makeSlice(instr *ssa.MakeSlice, ln, cp value) value {
	l := m.concretize(ln, "make([]T, n) length")
	c := l
	if lt, ok := ln.(*Term); !ok || cp != value(lt) {
		c = m.concretize(cp, "make([]T, n) capacity")
	}
	if l < 0 || l > 1<<32 {
		m.tpanic("runtime error: makeslice: len out of range")
	}
	if c < l || c > 1<<32 {
		m.tpanic("runtime error: makeslice: cap out of range")
	}
	s := make([]value, c)
	tElt := instr.Type().Underlying().(*types.Slice).Elem()
	z := zero(tElt)
	switch z.(type) {
	case structure, array:
		for i := range s {
			s[i] = zero(tElt)
		}
	default:
		for i := range s {
			s[i] = z
		}
	}
	return s[:l]
}

// ---------------------------------------------------------------------------
// maps

func (m *Machine) mapLookup(mp *mapV, key value) (v value, ok value) {
	if mp == nil {
		return nil, false
	}
	_, ksym := key.(*Term)
	if _, ss := key.(sstr); ss {
		ksym = true
	}
	if !ksym && !mp.symKey && basicKey(key) {
		if i, found := mp.idx[key]; found {
			return mp.ents[i].v, true
		}
		return nil, false
	}
	// linear scan, newest first
	var found value = false
	var res value
	type cand struct {
		c value
		v value
	}
	var cands []cand
	for i := len(mp.ents) - 1; i >= 0; i-- {
		e := mp.ents[i]
		eq := m.equals(mp.keyT, key, e.k)
		if b, isb := eq.(bool); isb {
			if b {
				cands = append(cands, cand{true, e.v})
				break
			}
			continue
		}
		cands = append(cands, cand{eq, e.v})
	}
	if len(cands) == 0 {
		return nil, false
	}
	if len(cands) == 1 {
		if b, isb := cands[0].c.(bool); isb && b {
			return cands[0].v, true
		}
	}
	// symbolic result: scalar values become an ite-chain, others fork
	allScalar := true
	for _, c := range cands {
		if !scalarValue(c.v) {
			if s, ok := c.v.(structure); ok && len(s) == 0 {
				continue
			}
			allScalar = false
		}
	}
	if !allScalar {
		for _, c := range cands {
			if m.truth(c.c) {
				return c.v, true
			}
		}
		return nil, false
	}
	// build from the oldest candidate outward
	zeroV := zero(mp.elemT)
	if s, ok := zeroV.(structure); ok && len(s) == 0 {
		for _, c := range cands {
			found = m.orValue(found, c.c)
		}
		return zeroV, found
	}
	rt := m.toTerm(zeroV)
	for i := len(cands) - 1; i >= 0; i-- {
		c := cands[i]
		found = m.orValue(found, c.c)
		rt = m.ts.Ite(m.boolTerm(c.c), m.toTerm(c.v), rt)
	}
	res = m.fromTerm(rt, mp.elemT)
	return res, found
}

func (m *Machine) lookup(instr *ssa.Lookup, x, idx value) value {
	switch x := x.(type) {
	case *mapV:
		v, ok := m.mapLookup(x, idx)
		elemT := instr.X.Type().Underlying().(*types.Map).Elem()
		if b, isb := ok.(bool); isb {
			if !b {
				v = zero(elemT)
			}
		}
		v = copyVal(v)
		if instr.CommaOk {
			return tuple{v, ok}
		}
		return v
	case string, sstr:
		return m.index(x, idx, types.Typ[types.Uint8], instr.Index.Type())
	}
	panic(fmt.Sprintf("unexpected x type in Lookup: %T", x))
}

func (m *Machine) mapUpdate(mv, key, v value) {
	mp := mv.(*mapV)
	if mp == nil {
		m.tpanic("assignment to entry in nil map")
	}
	if m.frozenMaps != nil && (m.frozenMaps[mp] || m.globalFrozenMaps[mp]) {
		m.frozenWrites = append(m.frozenWrites, m.pos())
	}
	m.mapInsert(mp, key, v)
}

func (m *Machine) mapInsert(mp *mapV, key, v value) {
	_, ksym := key.(*Term)
	if _, ss := key.(sstr); ss {
		ksym = true
	}
	if !ksym && basicKey(key) {
		if i, found := mp.idx[key]; found && !mp.symKey {
			mp.ents[i].v = v
			return
		}
		if !mp.symKey {
			mp.idx[key] = len(mp.ents)
			mp.ents = append(mp.ents, mapEntry{key, v})
			return
		}
	}
	if !ksym && !basicKey(key) {
		// composite concrete keys: linear scan with structural equality
		for i := range mp.ents {
			if b, ok := m.equals(mp.keyT, key, mp.ents[i].k).(bool); ok && b {
				mp.ents[i].v = v
				return
			}
		}
		mp.symKey = mp.symKey || false
		mp.ents = append(mp.ents, mapEntry{key, v})
		return
	}
	// symbolic key (or concrete key into a map that has symbolic keys):
	// overwrite a syntactically identical key, else append (shadowing)
	for i := range mp.ents {
		if b, ok := m.equals(mp.keyT, key, mp.ents[i].k).(bool); ok && b {
			mp.ents[i].v = v
			return
		}
	}
	mp.symKey = true
	mp.ents = append(mp.ents, mapEntry{key, v})
}

func (m *Machine) mapDelete(mp *mapV, key value) {
	if mp == nil {
		return
	}
	if m.frozenMaps != nil && (m.frozenMaps[mp] || m.globalFrozenMaps[mp]) {
		m.frozenWrites = append(m.frozenWrites, m.pos())
	}
	if mp.symKey || isSym(key) {
		panic(unsupported{"delete on a map with symbolic keys"})
	}
	for i := range mp.ents {
		if b, ok := m.equals(mp.keyT, key, mp.ents[i].k).(bool); ok && b {
			mp.ents = append(mp.ents[:i:i], mp.ents[i+1:]...)
			mp.idx = make(map[value]int)
			for j, e := range mp.ents {
				if basicKey(e.k) {
					mp.idx[e.k] = j
				}
			}
			return
		}
	}
}

// mapLen resolves the number of distinct keys (forking when symbolic keys may
// coincide).
func (m *Machine) mapLen(mp *mapV) int {
	if mp == nil {
		return 0
	}
	if !mp.symKey {
		return len(mp.ents)
	}
	n := 0
	for i := range mp.ents {
		dup := false
		for j := i + 1; j < len(mp.ents); j++ {
			if m.truth(m.equals(mp.keyT, mp.ents[i].k, mp.ents[j].k)) {
				dup = true
				break
			}
		}
		if !dup {
			n++
		}
	}
	return n
}

func (m *Machine) rangeIter(x value, t types.Type) iter {
	switch x := x.(type) {
	case *mapV:
		if x == nil {
			return &mapIter{}
		}
		ents := append([]mapEntry(nil), x.ents...)
		if x.symKey {
			// drop entries shadowed by a later equal key
			var live []mapEntry
			for i := range ents {
				dup := false
				for j := i + 1; j < len(ents); j++ {
					if m.truth(m.equals(x.keyT, ents[i].k, ents[j].k)) {
						dup = true
						break
					}
				}
				if !dup {
					live = append(live, ents[i])
				}
			}
			ents = live
		}
		if m.mapOrder && len(ents) > 1 {
			// one iteration order per map object and size on a path (Go draws a fresh order
			// for every range statement; repeating the choice per statement would square
			// the path count without exercising anything new in this code base)
			if m.mapPerm == nil {
				m.mapPerm = make(map[*mapV][]mapEntry)
			}
			if old, ok := m.mapPerm[x]; ok && len(old) == len(ents) {
				ents = append([]mapEntry(nil), old...)
				// values may have been updated since: refresh them by key position
				for i := range ents {
					for _, cur := range x.ents {
						if b, isb := m.equals(x.keyT, ents[i].k, cur.k).(bool); isb && b {
							ents[i].v = cur.v
						}
					}
				}
			} else {
				ents = m.permute(ents)
				m.mapPerm[x] = append([]mapEntry(nil), ents...)
			}
		}
		return &mapIter{m: x, ents: ents}
	case string, sstr:
		return &stringIter{m: m, b: strBytes(x)}
	}
	panic(fmt.Sprintf("cannot range over %T", x))
}

// permute picks an iteration order nondeterministically (map-order mode):
// all permutations for ≤3 entries, rotations beyond.
func (m *Machine) permute(ents []mapEntry) []mapEntry {
	n := len(ents)
	if n <= 3 {
		out := make([]mapEntry, 0, n)
		rest := append([]mapEntry(nil), ents...)
		for len(rest) > 0 {
			k := m.choice(len(rest))
			out = append(out, rest[k])
			rest = append(rest[:k:k], rest[k+1:]...)
		}
		return out
	}
	k := m.choice(n)
	return append(append([]mapEntry(nil), ents[k:]...), ents[:k]...)
}

// ---------------------------------------------------------------------------
// channels

func (m *Machine) chanSend(c value, v value) {
	ch := c.(*chanV)
	if ch == nil {
		panic(hang{"send on nil channel blocks forever at " + m.pos()})
	}
	if ch.closed {
		m.tpanic("send on closed channel")
	}
	if len(ch.buf) >= ch.cap {
		panic(hang{fmt.Sprintf("send on full channel (cap %d) with no receiver at %s", ch.cap, m.pos())})
	}
	ch.buf = append(ch.buf, copyVal(v))
}

func (m *Machine) chanRecv(c value, t types.Type) (value, bool) {
	ch := c.(*chanV)
	if ch == nil {
		panic(hang{"receive from nil channel"})
	}
	if len(ch.buf) == 0 {
		if ch.closed {
			return zero(t.Underlying().(*types.Chan).Elem()), false
		}
		panic(hang{"receive from empty channel with no sender"})
	}
	v := ch.buf[0]
	ch.buf = ch.buf[1:]
	return v, true
}

// ---------------------------------------------------------------------------
// type assertions

func (m *Machine) typeAssert(instr *ssa.TypeAssert, itf iface) value {
	var v value
	err := ""
	if itf.t == nil {
		err = fmt.Sprintf("interface conversion: interface is nil, not %s", instr.AssertedType)
	} else if idst, ok := instr.AssertedType.Underlying().(*types.Interface); ok {
		v = itf
		if meth, _ := types.MissingMethod(itf.t, idst, true); meth != nil {
			err = fmt.Sprintf("interface conversion: %v is not %v: missing method %s", itf.t, idst, meth.Name())
		}
	} else if types.Identical(itf.t, instr.AssertedType) {
		v = itf.v
	} else {
		err = fmt.Sprintf("interface conversion: interface is %s, not %s", itf.t, instr.AssertedType)
	}
	if err != "" {
		if !instr.CommaOk {
			m.tpanic("%s", err)
		}
		return tuple{zero(instr.AssertedType), false}
	}
	if instr.CommaOk {
		return tuple{v, true}
	}
	return v
}

// ---------------------------------------------------------------------------
// builtins

func (m *Machine) callBuiltin(caller *frame, callpos token.Pos, fn *ssa.Builtin, args []value) value {
	switch fn.Name() {
	case "append":
		if len(args) == 1 {
			return args[0]
		}
		switch s := args[1].(type) {
		case string, sstr:
			arg0 := args[0].([]value)
			return m.appendVals(arg0, strBytes(s))
		}
		return m.appendVals(args[0].([]value), args[1].([]value))

	case "copy":
		src := args[1]
		switch s := src.(type) {
		case string, sstr:
			src = strBytes(s)
		}
		dst := args[0].([]value)
		srcs := src.([]value)
		n := len(dst)
		if len(srcs) < n {
			n = len(srcs)
		}
		// handle overlap like the built-in copy (memmove semantics)
		tmp := make([]value, n)
		for i := 0; i < n; i++ {
			tmp[i] = copyVal(srcs[i])
		}
		for i := 0; i < n; i++ {
			m.storeSlot(&dst[i], tmp[i])
		}
		return n

	case "close":
		ch := args[0].(*chanV)
		if ch == nil {
			m.tpanic("close of nil channel")
		}
		if ch.closed {
			m.tpanic("close of closed channel")
		}
		ch.closed = true
		return nil

	case "delete":
		m.mapDelete(args[0].(*mapV), args[1])
		return nil

	case "print", "println":
		return nil

	case "len":
		switch x := args[0].(type) {
		case string:
			return len(x)
		case sstr:
			return len(x.b)
		case array:
			return len(x)
		case *value:
			return len((*x).(array))
		case []value:
			return len(x)
		case *mapV:
			return m.mapLen(x)
		case *chanV:
			if x == nil {
				return 0
			}
			return len(x.buf)
		default:
			panic(fmt.Sprintf("len: illegal operand: %T", x))
		}

	case "cap":
		switch x := args[0].(type) {
		case array:
			return cap(x)
		case *value:
			return cap((*x).(array))
		case []value:
			return cap(x)
		case *chanV:
			if x == nil {
				return 0
			}
			return x.cap
		default:
			panic(fmt.Sprintf("cap: illegal operand: %T", x))
		}

	case "min":
		return m.foldMinMax(args, true, fn)
	case "max":
		return m.foldMinMax(args, false, fn)

	case "panic":
		panic(targetPanic{args[0]})

	case "recover":
		return iface{}

	case "ssa:wrapnilchk":
		recv := args[0]
		if recv.(*value) == nil {
			m.tpanic("value method (%s).%s called using nil *%s pointer", args[1], args[2], args[1])
		}
		return recv
	}
	panic(unsupported{"built-in: " + fn.Name()})
}

func (m *Machine) foldMinMax(args []value, isMin bool, fn *ssa.Builtin) value {
	anySym := false
	for _, a := range args {
		if isSym(a) {
			anySym = true
		}
	}
	if !anySym {
		if isMin {
			return foldLeft(vmin, args)
		}
		return foldLeft(vmax, args)
	}
	sig := fn.Type().(*types.Signature)
	t := sig.Params().At(0).Type()
	x := args[0]
	for _, a := range args[1:] {
		var c value
		if isMin {
			c = m.binop(token.LSS, t, t, a, x)
		} else {
			c = m.binop(token.GTR, t, t, a, x)
		}
		x = m.fromTerm(m.ts.Ite(m.boolTerm(c), m.toTerm(a), m.toTerm(x)), t)
	}
	return x
}

// appendVals appends with Go's aliasing behaviour (in place when capacity
// allows), checking frozen slots.
func (m *Machine) appendVals(dst, src []value) []value {
	if len(src) == 0 {
		return dst
	}
	if len(dst)+len(src) <= cap(dst) {
		n := len(dst)
		dst = dst[:n+len(src)]
		for i, v := range src {
			m.storeSlot(&dst[n+i], copyVal(v))
		}
		return dst
	}
	// grow: new backing array (capacity doubling like the runtime, roughly)
	newCap := cap(dst) * 2
	if newCap < len(dst)+len(src) {
		newCap = len(dst) + len(src)
	}
	out := make([]value, len(dst), newCap)
	copy(out, dst)
	for _, v := range src {
		out = append(out, copyVal(v))
	}
	return out
}

// ---------------------------------------------------------------------------
// conversions

func (m *Machine) conv(tDst, tSrc types.Type, x value) value {
	switch xv := x.(type) {
	case *Term:
		src, ok1 := infoOf(tSrc)
		dst, ok2 := infoOf(tDst)
		if !ok1 || !ok2 {
			panic(unsupported{fmt.Sprintf("conversion of symbolic %v to %v", tSrc, tDst)})
		}
		switch {
		case src.isInt && dst.isInt:
			var r *Term
			switch {
			case dst.width == src.width:
				r = xv
			case dst.width < src.width:
				r = m.ts.Extract(xv, dst.width-1, 0)
				if m.narrow {
					m.narrowCheck(xv, src, dst)
				}
			case src.signed:
				r = m.ts.SExt(xv, dst.width)
			default:
				r = m.ts.ZExt(xv, dst.width)
			}
			return m.fromTerm(r, tDst)
		case src.isInt && dst.isStr:
			// string(rune)
			return mkStr(m.encodeRuneSym(m.runeTerm(xv, src)))
		case src.isFlt && dst.isFlt:
			return xv
		case src.isBool && dst.isBool:
			return xv
		}
		panic(unsupported{fmt.Sprintf("conversion of symbolic %v to %v", tSrc, tDst)})
	case sstr:
		switch ut := tDst.Underlying().(type) {
		case *types.Basic:
			if ut.Kind() == types.String {
				return xv
			}
		case *types.Slice:
			switch ut.Elem().Underlying().(*types.Basic).Kind() {
			case types.Byte:
				return append([]value{}, xv.b...)
			case types.Rune:
				var res []value
				b := xv.b
				for len(b) > 0 {
					r, n := m.decodeRune(b)
					res = append(res, r)
					b = b[n:]
				}
				if res == nil {
					res = []value{}
				}
				return res
			}
		}
		panic(unsupported{fmt.Sprintf("conversion of symbolic string to %v", tDst)})
	case []value:
		if st, ok := tSrc.Underlying().(*types.Slice); ok {
			if b, ok := tDst.Underlying().(*types.Basic); ok && b.Kind() == types.String {
				switch st.Elem().Underlying().(*types.Basic).Kind() {
				case types.Byte:
					return mkStr(append([]value{}, xv...))
				case types.Rune:
					var out []value
					for _, r := range xv {
						switch r := r.(type) {
						case int32:
							out = append(out, encodeRune(r)...)
						case *Term:
							out = append(out, m.encodeRuneSym(r)...)
						}
					}
					return mkStr(out)
				}
			}
		}
	}
	if m.narrow {
		m.narrowCheckConcrete(tDst, tSrc, x)
	}
	return concreteConv(tDst, tSrc, x)
}

func (m *Machine) runeTerm(x *Term, src basicInfo) *Term {
	switch {
	case src.width == 32:
		return x
	case src.width < 32 && src.signed:
		return m.ts.SExt(x, 32)
	case src.width < 32:
		return m.ts.ZExt(x, 32)
	}
	// wider: out-of-range values become RuneError, approximated by saturation
	inRange := m.ts.BVCmp(OpUle, x, m.ts.BVConst(0x10FFFF, src.width))
	return m.ts.Ite(inRange, m.ts.Extract(x, 31, 0), m.ts.BVConst(0xFFFD, 32))
}

type encInfo struct {
	r *Term
	n int
}

// encodeRuneSym returns the UTF-8 byte atoms of a symbolic rune, forking on
// the encoded width.
func (m *Machine) encodeRuneSym(r *Term) []value {
	ts := m.ts
	c := func(v uint64) *Term { return ts.BVConst(v, 32) }
	b8 := func(t *Term) value { return m.fromTerm(ts.Extract(t, 7, 0), types.Typ[types.Uint8]) }
	shr := func(t *Term, k uint64) *Term { return ts.BVBin(OpLShr, t, c(k)) }
	and := func(t *Term, k uint64) *Term { return ts.BVBin(OpBAnd, t, c(k)) }
	or := func(t *Term, k uint64) *Term { return ts.BVBin(OpBOr, t, c(k)) }
	var out []value
	switch {
	case m.branch(ts.BVCmp(OpUlt, r, c(0x80))):
		out = []value{b8(r)}
	case m.branch(ts.BVCmp(OpUlt, r, c(0x800))):
		out = []value{b8(or(shr(r, 6), 0xC0)), b8(or(and(r, 0x3F), 0x80))}
	case m.branch(ts.Or(ts.BVCmp(OpUlt, c(0x10FFFF), r),
		ts.And(ts.BVCmp(OpUle, c(0xD800), r), ts.BVCmp(OpUle, r, c(0xDFFF))))):
		return []value{uint8(0xEF), uint8(0xBF), uint8(0xBD)}
	case m.branch(ts.BVCmp(OpUlt, r, c(0x10000))):
		out = []value{b8(or(shr(r, 12), 0xE0)), b8(or(and(shr(r, 6), 0x3F), 0x80)), b8(or(and(r, 0x3F), 0x80))}
	default:
		out = []value{b8(or(shr(r, 18), 0xF0)), b8(or(and(shr(r, 12), 0x3F), 0x80)), b8(or(and(shr(r, 6), 0x3F), 0x80)), b8(or(and(r, 0x3F), 0x80))}
	}
	if ft, ok := out[0].(*Term); ok {
		if m.encMemo == nil {
			m.encMemo = make(map[*Term]encInfo)
		}
		m.encMemo[ft] = encInfo{r: r, n: len(out)}
	}
	return out
}

// decodeRune decodes the first rune of a byte-atom sequence.
func (m *Machine) decodeRune(b []value) (value, int) {
	// fully concrete prefix?
	var buf [4]byte
	n := 0
	for n < 4 && n < len(b) {
		c, ok := b[n].(uint8)
		if !ok {
			break
		}
		buf[n] = c
		n++
	}
	if n > 0 && (utf8.FullRune(buf[:n]) || n == len(b) || n == 4) {
		r, sz := utf8.DecodeRune(buf[:n])
		return r, sz
	}
	if n > 0 && buf[0] < 0x80 {
		return rune(buf[0]), 1
	}
	ft, ok := b[0].(*Term)
	if !ok {
		panic(unsupported{"UTF-8 decoding of a mixed concrete/symbolic sequence"})
	}
	if info, ok := m.encMemo[ft]; ok && info.n <= len(b) {
		return info.r, info.n
	}
	// a lone symbolic byte: ASCII or invalid (RuneError, width 1) when followed by
	// nothing that continues it; general multi-byte decoding of raw symbolic bytes
	// is not modelled.
	if m.branch(m.ts.BVCmp(OpUlt, ft, m.ts.BVConst(0x80, 8))) {
		return m.ts.ZExt(ft, 32), 1
	}
	panic(unsupported{"UTF-8 decoding of a raw symbolic non-ASCII byte"})
}

func (m *Machine) narrowCheck(x *Term, src, dst basicInfo) {
	// value must be representable in dst
	var back *Term
	ex := m.ts.Extract(x, dst.width-1, 0)
	if dst.signed {
		back = m.ts.SExt(ex, src.width)
	} else {
		back = m.ts.ZExt(ex, src.width)
	}
	if m.branch(m.ts.Not(m.ts.Eq(back, x))) {
		m.narrowViolations = append(m.narrowViolations, "lossy narrowing conversion at "+m.pos())
	}
}

func (m *Machine) narrowCheckConcrete(tDst, tSrc types.Type, x value) {
	src, ok1 := infoOf(tSrc)
	dst, ok2 := infoOf(tDst)
	if !ok1 || !ok2 || !src.isInt || !dst.isInt {
		return
	}
	if m.curInstr == nil || m.curInstr.Parent() == nil || m.curInstr.Parent().Pkg != m.target {
		return
	}
	var v int64
	switch x.(type) {
	case uint, uint64, uintptr:
		u := asUint64(x)
		if u > math.MaxInt64 {
			m.narrowViolations = append(m.narrowViolations, "lossy narrowing conversion at "+m.pos())
			return
		}
		v = int64(u)
	default:
		v = asInt64(x)
	}
	lo, hi := int64(0), int64(0)
	if dst.signed {
		if dst.width == 64 {
			return
		}
		lo, hi = -(1 << uint(dst.width-1)), (1<<uint(dst.width-1))-1
	} else {
		if dst.width == 64 {
			if v < 0 {
				m.narrowViolations = append(m.narrowViolations, "lossy narrowing conversion at "+m.pos())
			}
			return
		}
		lo, hi = 0, (1<<uint(dst.width))-1
	}
	if v < lo || v > hi {
		m.narrowViolations = append(m.narrowViolations, fmt.Sprintf("lossy narrowing conversion of %d to %v at %s", v, tDst, m.pos()))
	}
}

// narrowArith flags wrapping 8/16-bit arithmetic inside the target package
// (narrow monitor, C09).
func (m *Machine) narrowArith(op token.Token, x, y value) {
	var a, b, lo, hi int64
	switch xv := x.(type) {
	case int16:
		a, b, lo, hi = int64(xv), int64(y.(int16)), math.MinInt16, math.MaxInt16
	case int8:
		a, b, lo, hi = int64(xv), int64(y.(int8)), math.MinInt8, math.MaxInt8
	default:
		return
	}
	if m.curInstr == nil || m.curInstr.Parent() == nil || m.curInstr.Parent().Pkg != m.target {
		return
	}
	var r int64
	switch op {
	case token.ADD:
		r = a + b
	case token.SUB:
		r = a - b
	case token.MUL:
		r = a * b
	}
	if r < lo || r > hi {
		m.narrowViolations = append(m.narrowViolations, fmt.Sprintf("8/16-bit arithmetic wraps (%d %s %d) at %s", a, op, b, m.pos()))
	}
}
