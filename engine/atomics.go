package main

// sync/atomic in a sequential executor: plain loads and stores on the slot the
// pointer designates. This is what makes sync.Mutex (uncontended fast paths),
// sync.Once and sync.Map executable from their real source. Interleavings are
// not explored here (the write-footprint monitors and the native race-detector
// replay cover sharing).

import (
	"fmt"
	"go/token"
	"go/types"
	"unsafe"
)

func atomicSlot(m *Machine, a value) *value {
	switch p := a.(type) {
	case *value:
		return m.derefCheck(p)
	case unsafe.Pointer:
		return m.derefCheck((*value)(p))
	}
	panic(fmt.Sprintf("engine error: atomic operation on %T", a))
}

func atomicAdd(x, d value) value {
	switch xv := x.(type) {
	case int32:
		return xv + d.(int32)
	case int64:
		return xv + d.(int64)
	case uint32:
		return xv + d.(uint32)
	case uint64:
		return xv + d.(uint64)
	case uintptr:
		return xv + d.(uintptr)
	}
	panic(fmt.Sprintf("engine error: atomic add on %T", x))
}

func atomicAnd(x, d value) value {
	switch xv := x.(type) {
	case int32:
		return xv & d.(int32)
	case int64:
		return xv & d.(int64)
	case uint32:
		return xv & d.(uint32)
	case uint64:
		return xv & d.(uint64)
	case uintptr:
		return xv & d.(uintptr)
	}
	panic(fmt.Sprintf("engine error: atomic and on %T", x))
}

func atomicOr(x, d value) value {
	switch xv := x.(type) {
	case int32:
		return xv | d.(int32)
	case int64:
		return xv | d.(int64)
	case uint32:
		return xv | d.(uint32)
	case uint64:
		return xv | d.(uint64)
	case uintptr:
		return xv | d.(uintptr)
	}
	panic(fmt.Sprintf("engine error: atomic or on %T", x))
}

func atomicEq(x, y value) bool {
	if _, sym := x.(*Term); sym {
		panic("engine error: atomic compare-and-swap on a symbolic value")
	}
	if _, sym := y.(*Term); sym {
		panic("engine error: atomic compare-and-swap on a symbolic value")
	}
	if px, ok := x.(unsafe.Pointer); ok {
		py, _ := y.(unsafe.Pointer)
		return px == py
	}
	return x == y
}

func init() {
	for _, t := range []string{"Int32", "Int64", "Uint32", "Uint64", "Uintptr", "Pointer"} {
		t := t
		externals["sync/atomic.Load"+t] = func(m *Machine, fr *frame, a []value) value {
			return *atomicSlot(m, a[0])
		}
		externals["sync/atomic.Store"+t] = func(m *Machine, fr *frame, a []value) value {
			m.storeSlot(atomicSlot(m, a[0]), a[1])
			return nil
		}
		externals["sync/atomic.Swap"+t] = func(m *Machine, fr *frame, a []value) value {
			p := atomicSlot(m, a[0])
			old := *p
			m.storeSlot(p, a[1])
			return old
		}
		externals["sync/atomic.CompareAndSwap"+t] = func(m *Machine, fr *frame, a []value) value {
			p := atomicSlot(m, a[0])
			if atomicEq(*p, a[1]) {
				m.storeSlot(p, a[2])
				return true
			}
			return false
		}
		if t != "Pointer" {
			externals["sync/atomic.Add"+t] = func(m *Machine, fr *frame, a []value) value {
				p := atomicSlot(m, a[0])
				nv := atomicAdd(*p, a[1])
				m.storeSlot(p, nv)
				return nv
			}
			externals["sync/atomic.And"+t] = func(m *Machine, fr *frame, a []value) value {
				p := atomicSlot(m, a[0])
				old := *p
				m.storeSlot(p, atomicAnd(old, a[1]))
				return old
			}
			externals["sync/atomic.Or"+t] = func(m *Machine, fr *frame, a []value) value {
				p := atomicSlot(m, a[0])
				old := *p
				m.storeSlot(p, atomicOr(old, a[1]))
				return old
			}
		}
	}
	// atomic.Value: its only field holds the interface value; Load/Store/Swap/CompareAndSwap are plain
	// accesses to that field (the real methods reinterpret the field through unsafe.Pointer)
	valueSlot := func(m *Machine, a value) *value {
		p := m.derefCheck(a.(*value))
		st := (*p).(structure)
		return &st[0]
	}
	checkStore := func(m *Machine, slot *value, nv value, what string) {
		n, _ := nv.(iface)
		if n.t == nil {
			m.tpanic("sync/atomic: " + what + " of nil value into Value")
		}
		if o, _ := (*slot).(iface); o.t != nil && !types.Identical(o.t, n.t) {
			m.tpanic("sync/atomic: " + what + " of inconsistently typed value into Value")
		}
	}
	externals["(*sync/atomic.Value).Load"] = func(m *Machine, fr *frame, a []value) value {
		v := *valueSlot(m, a[0])
		if v == nil {
			return iface{}
		}
		return v
	}
	externals["(*sync/atomic.Value).Store"] = func(m *Machine, fr *frame, a []value) value {
		slot := valueSlot(m, a[0])
		checkStore(m, slot, a[1], "store")
		m.storeSlot(slot, a[1])
		return nil
	}
	externals["(*sync/atomic.Value).Swap"] = func(m *Machine, fr *frame, a []value) value {
		slot := valueSlot(m, a[0])
		checkStore(m, slot, a[1], "swap")
		old := *slot
		m.storeSlot(slot, a[1])
		if old == nil {
			return iface{}
		}
		return old
	}
	// sync.Pool, sequentially: Get hands back the most recently Put object, else calls New (the real
	// pool may drop objects at any time; reuse is the case that exposes stale state, and a counterexample
	// that depends on it is confirmed natively like any other)
	externals["(*sync.Pool).Put"] = func(m *Machine, fr *frame, a []value) value {
		p := m.derefCheck(a[0].(*value))
		if x, _ := a[1].(iface); x.t == nil {
			return nil
		}
		if m.pools == nil {
			m.pools = map[*value][]value{}
		}
		m.pools[p] = append(m.pools[p], a[1])
		return nil
	}
	externals["(*sync.Pool).Get"] = func(m *Machine, fr *frame, a []value) value {
		p := m.derefCheck(a[0].(*value))
		if items := m.pools[p]; len(items) > 0 {
			x := items[len(items)-1]
			m.pools[p] = items[:len(items)-1]
			return x
		}
		st := (*p).(structure)
		newFn := st[len(st)-1] // field New func() any (last field of sync.Pool)
		if newFn == nil {
			return iface{}
		}
		return m.call(fr, token.NoPos, newFn, nil)
	}
	// the semaphore slow paths of sync are never needed sequentially; reaching one means a
	// lock is taken twice on one path (a deadlock in the real program)
	externals["sync.runtime_SemacquireMutex"] = func(m *Machine, fr *frame, a []value) value {
		m.tpanic("fatal error: all goroutines are asleep - deadlock! (sync.Mutex locked twice on one path)")
		return nil
	}
	externals["sync.runtime_Semrelease"] = func(m *Machine, fr *frame, a []value) value { return nil }
	externals["sync.runtime_canSpin"] = func(m *Machine, fr *frame, a []value) value { return false }
	externals["sync.runtime_doSpin"] = func(m *Machine, fr *frame, a []value) value { return nil }
	externals["sync.runtime_nanotime"] = func(m *Machine, fr *frame, a []value) value { return int64(0) }
	externals["sync.fatal"] = func(m *Machine, fr *frame, a []value) value {
		m.tpanic("fatal error: " + a[0].(string))
		return nil
	}
	externals["sync.throw"] = externals["sync.fatal"]
}
