package main

// The symbolic machine: path state, fork protocol, assertion protocol.

import (
	"fmt"
	"go/token"
	"go/types"
	"sort"
	"strings"

	"golang.org/x/tools/go/ssa"
)

// decision codes recorded along a path
const (
	dFalse       int32 = 0  // symbolic branch, false side taken (asserted)
	dTrue        int32 = 1  // symbolic branch, true side taken (asserted)
	dForcedFalse int32 = 2  // only the false side was feasible
	dForcedTrue  int32 = 3  // only the true side was feasible
	dChoiceBase  int32 = 16 // dChoiceBase+k : k-th alternative of a vfChoice
)

// control-flow panics used to end a path
type pathEnd struct{ reason string }
type unsupported struct{ what string }
type budgetExceeded struct{}
type hang struct{ what string }

type inputDecl struct {
	Name string
	Kind string // "int64", "bool", "byte", "int16", "rune", "cost"
	T    *Term
}

type Failure struct {
	Label     string            `json:"label"`
	Kind      string            `json:"kind"` // "assert", "panic", "hang"
	Detail    string            `json:"detail,omitempty"`
	Pos       string            `json:"pos,omitempty"`
	Model     map[string]string `json:"model"`
	Decisions []int32           `json:"decisions"`
	Stack     []string          `json:"stack,omitempty"`
}

type PathResult struct {
	Status    string // "ok", "assumed-away", "failed", "undecided"
	Reason    string
	Failures  []Failure
	Pending   [][]int32
	Reached   map[string]bool
	Steps     int64
	Forks     int
	Weak      bool
	Undecided int
	Witness   map[string]string // model of the path condition (sampled)
	Observed  []string          // vfObserve records
	Taken     []int32
}

type Machine struct {
	sh     *Shared
	prog   *ssa.Program
	target *ssa.Package
	sizes  types.Sizes

	globals map[*ssa.Global]*value // per-path globals of the target package

	ts     *TermStore
	solver *Solver

	prefix  []int32
	dpos    int
	taken   []int32
	pending [][]int32
	known   map[*Term]bool
	pc      []*Term

	steps    int64
	maxSteps int64

	inputs      []inputDecl
	inputByName map[string]*Term
	replayVals  map[string]string // non-nil: concrete mode, vf inputs read from here

	frozen       map[*value]bool
	frozenMaps   map[*mapV]bool
	frozenWrites []string
	globalWrites []string
	inInit       bool

	reached   map[string]bool
	failures  []Failure
	weak      bool
	undecided int
	forks     int
	observed  []string

	curInstr ssa.Instruction
	curFrame *frame
	depth    int

	wantWitness bool
	mapOrder    bool

	funcSteps        map[*ssa.Function]int64
	stubsUsed        map[string]int
	narrow           bool
	narrowViolations []string

	choices          [][2]string
	asserts          int
	placeholders     map[string]value
	encMemo          map[*Term]encInfo
	randCount        int
	merges           int
	pcVars           map[*Term]bool
	freeForks        int
	fnCache          map[*ssa.Function]*fnInfo
	freezeStop       map[interface{}]bool
	lazy             bool
	mapPerm          map[*mapV][]mapEntry
	globalFrozen     map[*value]bool
	globalFrozenMaps map[*mapV]bool
	pools            map[*value][]value // sync.Pool contents (sequential model)
}

func NewMachine(sh *Shared, solver *Solver) *Machine {
	return &Machine{sh: sh, prog: sh.prog, target: sh.target, sizes: sh.sizes, solver: solver,
		funcSteps: make(map[*ssa.Function]int64), stubsUsed: make(map[string]int), fnCache: make(map[*ssa.Function]*fnInfo)}
}

func (m *Machine) resetPath(prefix []int32, maxSteps int64) {
	m.ts = NewTermStore()
	m.prefix = prefix
	m.dpos = 0
	m.taken = m.taken[:0]
	m.pending = nil
	m.known = make(map[*Term]bool)
	m.pc = nil
	m.steps = 0
	m.maxSteps = maxSteps
	m.inputs = nil
	m.inputByName = make(map[string]*Term)
	m.frozen = nil
	m.frozenMaps = nil
	m.frozenWrites = nil
	m.globalWrites = nil
	m.reached = make(map[string]bool)
	m.failures = nil
	m.weak = false
	m.undecided = 0
	m.forks = 0
	m.observed = nil
	m.curInstr = nil
	m.curFrame = nil
	m.depth = 0
	m.mapOrder = false
	m.narrow = false
	m.narrowViolations = nil
	m.choices = nil
	m.asserts = 0
	m.placeholders = nil
	m.encMemo = nil
	m.randCount = 0
	m.pcVars = nil
	m.freezeStop = nil
	m.mapPerm = nil
	m.globalFrozen, m.globalFrozenMaps = nil, nil
	m.pools = nil
}

func (m *Machine) pos() string {
	if m.curInstr == nil {
		return ""
	}
	p := m.curInstr.Pos()
	if p == token.NoPos {
		// fall back to the enclosing function
		if f := m.curInstr.Parent(); f != nil {
			return f.String()
		}
		return ""
	}
	return m.prog.Fset.Position(p).String()
}

func (m *Machine) stack() []string {
	var out []string
	for fr := m.curFrame; fr != nil && len(out) < 12; fr = fr.caller {
		out = append(out, fr.fn.String())
	}
	return out
}

// learn records a literal as known true on this path.
func (m *Machine) learn(c *Term) {
	m.known[c] = true
	m.known[m.ts.Not(c)] = false
}

// markVars records the variables occurring in an asserted condition.
func (m *Machine) markVars(c *Term) {
	if m.pcVars == nil {
		m.pcVars = make(map[*Term]bool)
	}
	seen := map[*Term]bool{}
	var walk func(t *Term)
	walk = func(t *Term) {
		if seen[t] {
			return
		}
		seen[t] = true
		if t.Op == OpVar {
			m.pcVars[t] = true
			return
		}
		for _, a := range t.Args {
			walk(a)
		}
	}
	walk(c)
}

// freeBoolVar reports whether c is a plain Boolean input (or its negation)
// that no asserted condition mentions: both outcomes are then trivially
// feasible and no solver call is needed.
func (m *Machine) freeBoolVar(c *Term) bool {
	if c.Op == OpNot {
		c = c.Args[0]
	}
	return c.Op == OpVar && c.Sort.K == SBool && !m.pcVars[c]
}

func (m *Machine) assumeTerm(c *Term) {
	m.learn(c)
	m.markVars(c)
	m.pc = append(m.pc, c)
	if m.solver != nil {
		m.solver.Assert(m.ts, c)
	}
}

// branch decides which way a symbolic condition goes on this path, forking
// (by queueing the alternative decision prefix) when both sides are feasible.
func (m *Machine) branch(c *Term) bool {
	if c.Sort.K != SBool {
		panic("branch on non-bool term")
	}
	if c.IsConst() {
		return c.IVal == 1
	}
	if v, ok := m.known[c]; ok {
		return v
	}
	if m.dpos < len(m.prefix) {
		d := m.prefix[m.dpos]
		m.dpos++
		m.taken = append(m.taken, d)
		switch d {
		case dTrue:
			m.assumeTerm(c)
			return true
		case dFalse:
			m.assumeTerm(m.ts.Not(c))
			return false
		case dForcedTrue:
			m.learn(c)
			return true
		case dForcedFalse:
			m.learn(m.ts.Not(c))
			return false
		}
		panic(fmt.Sprintf("decision prefix out of sync: got choice code %d at a branch (%s)", d, m.pos()))
	}
	if m.lazy || m.freeBoolVar(c) {
		// lazy mode: fork without asking the solver. Infeasible paths can only add
		// vacuous passes: a failure still needs a model (and a native replay).
		alt := make([]int32, len(m.taken)+1)
		copy(alt, m.taken)
		alt[len(m.taken)] = dFalse
		m.pending = append(m.pending, alt)
		m.taken = append(m.taken, dTrue)
		m.forks++
		m.freeForks++
		m.assumeTerm(c)
		return true
	}
	r1, _ := m.solver.Check(m.ts, c, nil)
	if r1 == Unsat {
		m.taken = append(m.taken, dForcedFalse)
		m.learn(m.ts.Not(c))
		return false
	}
	r2, _ := m.solver.Check(m.ts, m.ts.Not(c), nil)
	if r2 == Unsat {
		if r1 == Unknown {
			m.weak = true
		}
		m.taken = append(m.taken, dForcedTrue)
		m.learn(c)
		return true
	}
	if r1 == Unknown || r2 == Unknown {
		m.weak = true
	}
	// both sides (possibly) feasible: take true now, queue false
	alt := make([]int32, len(m.taken)+1)
	copy(alt, m.taken)
	alt[len(m.taken)] = dFalse
	m.pending = append(m.pending, alt)
	m.taken = append(m.taken, dTrue)
	m.forks++
	m.assumeTerm(c)
	return true
}

// choice is an unconditional n-way fork (used for type tags, shapes of data).
func (m *Machine) choice(n int) int {
	if n <= 1 {
		return 0
	}
	if m.dpos < len(m.prefix) {
		d := m.prefix[m.dpos]
		m.dpos++
		m.taken = append(m.taken, d)
		if d < dChoiceBase {
			panic(fmt.Sprintf("decision prefix out of sync: got branch code %d at a choice (%s)", d, m.pos()))
		}
		return int(d - dChoiceBase)
	}
	for k := 1; k < n; k++ {
		alt := make([]int32, len(m.taken)+1)
		copy(alt, m.taken)
		alt[len(m.taken)] = dChoiceBase + int32(k)
		m.pending = append(m.pending, alt)
	}
	m.taken = append(m.taken, dChoiceBase)
	m.forks++
	return 0
}

// truth converts a boolean value (bool or *Term) to a Go bool by branching.
func (m *Machine) truth(v value) bool {
	switch b := v.(type) {
	case bool:
		return b
	case *Term:
		return m.branch(b)
	}
	panic(fmt.Sprintf("truth: not a boolean: %T", v))
}

func (m *Machine) boolTerm(v value) *Term {
	switch b := v.(type) {
	case bool:
		return m.ts.Bool(b)
	case *Term:
		return b
	}
	panic(fmt.Sprintf("boolTerm: not a boolean: %T", v))
}

func (m *Machine) inputTerms() []*Term {
	out := make([]*Term, len(m.inputs))
	for i, in := range m.inputs {
		out[i] = in.T
	}
	return out
}

func (m *Machine) currentModel() map[string]string {
	if m.replayVals != nil {
		return m.replayVals
	}
	if len(m.inputs) == 0 && len(m.pc) == 0 {
		return map[string]string{}
	}
	r, model := m.solver.Check(m.ts, nil, m.inputTerms())
	if r == Unsat {
		// the path condition is infeasible (possible under lazy branching or after
		// solver unknowns): nothing on this path is real
		panic(pathEnd{"infeasible"})
	}
	if r != Sat {
		return nil
	}
	if model == nil {
		model = map[string]string{}
	}
	return m.typedModel(model)
}

// typedModel converts raw unsigned model values into the signed decimal the
// native harness expects for each input kind.
func (m *Machine) typedModel(raw map[string]string) map[string]string {
	out := make(map[string]string, len(raw))
	for _, in := range m.inputs {
		v, ok := raw[in.Name]
		if !ok {
			continue
		}
		if in.T.Sort.K == SBV {
			var u uint64
			fmt.Sscanf(v, "%d", &u)
			switch in.Kind {
			case "int64", "int16", "int32", "rune", "int8", "int":
				v = fmt.Sprintf("%d", signExt(u, in.T.Sort.W))
			}
		}
		out[in.Name] = v
	}
	return out
}

func (m *Machine) fail(kind, label, detail string, model map[string]string) {
	f := Failure{Label: label, Kind: kind, Detail: detail, Pos: m.pos(), Model: model,
		Decisions: append([]int32(nil), m.taken...), Stack: m.stack()}
	m.failures = append(m.failures, f)
}

// assertProp is the vfAssert protocol.
func (m *Machine) assertProp(c value, label string) {
	switch b := c.(type) {
	case bool:
		if !b {
			model := m.currentModel()
			if model == nil {
				// path condition not (provably) satisfiable: cannot produce a witness
				m.undecided++
				panic(pathEnd{"assert-false-on-undecided-path"})
			}
			m.fail("assert", label, "assertion is false on this path", model)
			panic(pathEnd{"failed"})
		}
	case *Term:
		if v, ok := m.known[b]; ok && v {
			return
		}
		neg := m.ts.Not(b)
		if m.replayVals != nil {
			panic("symbolic term in concrete mode")
		}
		r, model := m.solver.Check(m.ts, neg, m.inputTerms())
		switch r {
		case Unsat:
			m.learn(b)
		case Sat:
			m.fail("assert", label, "negation satisfiable: "+clip(neg.String(), 300), m.typedModel(model))
			panic(pathEnd{"failed"})
		default:
			m.undecided++
			m.weak = true
			// continue under the assumption (sound for later obligations of this path
			// only as far as this one holds; the path is reported undecided)
			m.assumeTerm(b)
		}
	default:
		panic(fmt.Sprintf("vfAssert: not a boolean: %T", c))
	}
}

func (m *Machine) assume(c value) {
	switch b := c.(type) {
	case bool:
		if !b {
			panic(pathEnd{"assumed-away"})
		}
	case *Term:
		if v, ok := m.known[b]; ok {
			if !v {
				panic(pathEnd{"assumed-away"})
			}
			return
		}
		if m.dpos < len(m.prefix) {
			// replaying: the assumption was satisfiable when first explored
			m.assumeTerm(b)
			return
		}
		m.assumeTerm(b)
		r, _ := m.solver.Check(m.ts, nil, nil)
		if r == Unsat {
			panic(pathEnd{"assumed-away"})
		}
		if r == Unknown {
			m.weak = true
		}
	default:
		panic(fmt.Sprintf("vfAssume: not a boolean: %T", c))
	}
}

func clip(s string, n int) string {
	if len(s) > n {
		return s[:n] + "…"
	}
	return s
}

// newInput declares a symbolic input (or reads it from the replay values in
// concrete mode).
func (m *Machine) newInput(name, kind string, s Sort) value {
	if _, dup := m.inputByName[name]; dup {
		panic(unsupported{"duplicate vf input name " + name})
	}
	if m.replayVals != nil {
		m.inputByName[name] = nil
		v := m.replayVals[name]
		return parseConcreteInput(kind, v)
	}
	t := m.ts.Var(name, s)
	m.inputByName[name] = t
	m.inputs = append(m.inputs, inputDecl{Name: name, Kind: kind, T: t})
	return t
}

func parseConcreteInput(kind, v string) value {
	var i int64
	var u uint64
	switch kind {
	case "bool":
		return v == "true"
	case "int64":
		fmt.Sscanf(v, "%d", &i)
		return i
	case "int":
		fmt.Sscanf(v, "%d", &i)
		return int(i)
	case "int16":
		fmt.Sscanf(v, "%d", &i)
		return int16(i)
	case "int32", "rune":
		fmt.Sscanf(v, "%d", &i)
		return int32(i)
	case "int8":
		fmt.Sscanf(v, "%d", &i)
		return int8(i)
	case "byte":
		fmt.Sscanf(v, "%d", &u)
		return uint8(u)
	case "uint64":
		fmt.Sscanf(v, "%d", &u)
		return u
	case "cost":
		fmt.Sscanf(v, "%d", &i)
		return float64(i)
	}
	panic("parseConcreteInput: kind " + kind)
}

// RunPath executes entry(args) along the given decision prefix.
func (m *Machine) RunPath(entry *ssa.Function, args []value, prefix []int32, maxSteps int64) (res PathResult) {
	m.resetPath(prefix, maxSteps)
	if m.solver != nil {
		m.solver.BeginPath()
		defer m.solver.EndPath()
	}
	res.Status = "ok"
	func() {
		defer func() {
			r := recover()
			if r == nil {
				return
			}
			switch p := r.(type) {
			case pathEnd:
				if p.reason == "failed" {
					res.Status = "failed"
				} else if p.reason == "assumed-away" || p.reason == "infeasible" {
					res.Status = "assumed-away"
				} else {
					res.Status = "undecided"
					res.Reason = p.reason
				}
			case targetPanic:
				msg := panicMessage(p.v)
				model, infeasible := m.safeModel()
				if infeasible {
					res.Status = "assumed-away"
					return
				}
				if model == nil {
					res.Status = "undecided"
					res.Reason = "panic on a path whose condition could not be solved: " + msg
					m.undecided++
					return
				}
				m.fail("panic", "panic", msg, model)
				res.Status = "failed"
			case hang:
				model, infeasible := m.safeModel()
				if infeasible {
					res.Status = "assumed-away"
					return
				}
				if model == nil {
					res.Status = "undecided"
					res.Reason = "hang on unsolved path: " + p.what
					m.undecided++
					return
				}
				m.fail("hang", "hang", p.what, model)
				res.Status = "failed"
			case unsupported:
				res.Status = "undecided"
				res.Reason = "unsupported: " + p.what + " at " + m.pos() + fmt.Sprintf(" stack=%v", m.stack())
				m.undecided++
			case budgetExceeded:
				res.Status = "undecided"
				res.Reason = "instruction budget exhausted"
				m.undecided++
			default:
				res.Status = "undecided"
				res.Reason = fmt.Sprintf("engine error: %v at %s stack=%v", r, m.pos(), m.stack())
				m.undecided++
			}
		}()
		m.initTargetGlobals()
		m.call(nil, token.NoPos, entry, args)
	}()
	if res.Status == "ok" && (m.wantWitness || m.lazy) && m.replayVals == nil && len(m.inputs) > 0 {
		w, infeasible := m.safeModel()
		if infeasible {
			res.Status = "assumed-away"
		} else if m.wantWitness {
			res.Witness = w
		}
	}
	res.Failures = m.failures
	res.Pending = m.pending
	res.Reached = m.reached
	res.Steps = m.steps
	res.Forks = m.forks
	res.Weak = m.weak
	res.Undecided = m.undecided
	res.Observed = m.observed
	res.Taken = append([]int32(nil), m.taken...)
	return
}

// safeModel is currentModel for use inside the recover handler.
func (m *Machine) safeModel() (model map[string]string, infeasible bool) {
	defer func() {
		if r := recover(); r != nil {
			if pe, ok := r.(pathEnd); ok && pe.reason == "infeasible" {
				infeasible = true
				return
			}
			panic(r)
		}
	}()
	return m.currentModel(), false
}

func panicMessage(v value) string {
	switch x := v.(type) {
	case string:
		return x
	case iface:
		if s, ok := x.v.(string); ok {
			return s
		}
		return toString(x)
	}
	return toString(v)
}

func (m *Machine) pcSummary() string {
	var parts []string
	for _, c := range m.pc {
		parts = append(parts, clip(c.String(), 120))
	}
	return strings.Join(parts, " ∧ ")
}

func sortedKeys(m map[string]bool) []string {
	var ks []string
	for k := range m {
		ks = append(ks, k)
	}
	sort.Strings(ks)
	return ks
}
