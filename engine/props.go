package main

// Property registry: work units, bounds and vacuity labels per property.

import (
	"fmt"
	"strings"
	"time"
)

// observeConcrete runs an entry in the executor's concrete mode and returns its
// vfObserve records.
func observeConcrete(sh *Shared, entry string, args []string) []string {
	m := NewMachine(sh, nil)
	m.replayVals = map[string]string{}
	res := m.RunPath(sh.entry(entry), []value{strSlice(args)}, nil, 100_000_000)
	return res.Observed
}

func init() {
	registerProp(&PropSpec{
		ID: "C18",
		Units: func(tier string, seed int64, sh *Shared) []Unit {
			maxN := 3
			if tier == "thorough" {
				maxN = 5
			}
			var names []string
			for _, o := range observeConcrete(sh, "VerifOpNames", nil) {
				if strings.HasPrefix(o, "ops=") {
					names = strings.Fields(strings.TrimPrefix(o, "ops="))
				}
			}
			scalar := map[string]bool{}
			for _, n := range strings.Fields("add sub mul div mod + - * / % and or xor not & | ! && || eq ne gt lt ge le = != > < >= <= == between") {
				scalar[n] = true
			}
			var units []Unit
			for _, name := range names {
				if !scalar[name] {
					continue
				}
				for _, tags := range c18Tags(maxN, name) {
					units = append(units, Unit{"VerifC18", []string{name, tags}})
				}
			}
			return units
		},
		Reach: []string{"modelled", "value", "alias", "dual"},
		Bounds: func(tier string) map[string]interface{} {
			n := 3
			if tier == "thorough" {
				n = 5
			}
			return map[string]interface{}{"operand_count": "0.." + itoa(n), "operand_values": "full int64 / bool (symbolic)",
				"type_combinations": "all for ≤2 operands; all-correct plus every single wrong-typed position above that"}
		},
		Rule:        "one unit per (operator table entry, operand type vector); a state is one symbolic path of the operator + reference; non-trivial = reaches an assertion",
		Assumptions: []string{"eq/ne on list operands are excluded here (uncomparable operands are C06's subject)"},
		WallBudget:  func(tier string) time.Duration { return 20 * time.Minute },
	})
}

func itoa(n int) string {
	return strings.TrimSpace(strings.Replace(" "+string(rune('0'+n%10)), " 0", "0", 0))
}

// c18Tags enumerates operand type vectors.
func c18Tags(maxN int, op string) []string {
	wrong := "ibsln"
	isEq := op == "eq" || op == "ne" || op == "=" || op == "==" || op == "!="
	var out []string
	out = append(out, "")
	for _, a := range "ibsln" {
		if isEq && a == 'l' {
			continue
		}
		out = append(out, string(a))
	}
	two := "ibstln"
	for _, a := range two {
		for _, b := range two {
			if isEq && (a == 'l' || b == 'l') {
				continue
			}
			out = append(out, string(a)+string(b))
		}
	}
	for n := 3; n <= maxN; n++ {
		for _, base := range "ib" {
			all := strings.Repeat(string(base), n)
			out = append(out, all)
			for pos := 0; pos < n; pos++ {
				for _, w := range wrong {
					if w == base || (isEq && w == 'l') {
						continue
					}
					out = append(out, all[:pos]+string(w)+all[pos+1:])
				}
			}
		}
	}
	return out
}

func shapeTierParams(tier string) (maxM int, pol leafPolicy) {
	if tier == "thorough" {
		return 3, leavesStandard
	}
	return 2, leavesStandard
}

func init() {
	registerProp(&PropSpec{
		ID: "C01",
		Units: func(tier string, seed int64, sh *Shared) []Unit {
			maxM, pol := shapeTierParams(tier)
			var units []Unit
			for _, src := range shapeFamily(maxM, pol, false, "BI") {
				for _, mode := range []string{"v", "f", "w"} {
					units = append(units, Unit{"VerifC01", []string{src, "keys", mode}})
				}
			}
			for _, sh := range stressShapes() {
				src := assignLeaves(sh, strings.Repeat("v", len(leafSlots(sh))))
				units = append(units, Unit{"VerifC01", []string{src, "keys", "v"}})
				if len(leafSlots(sh)) <= 8 || tier == "thorough" {
					units = append(units, Unit{"VerifC01", []string{src, "keys", "f"}})
				}
				if len(leafSlots(sh)) <= 6 {
					units = append(units, Unit{"VerifC01", []string{src, "keys", "w"}})
					for _, v := range leafVariants(sh, leavesStandard) {
						if v != src {
							units = append(units, Unit{"VerifC01", []string{v, "keys", "v"}})
						}
					}
				}
			}
			// an integer variable spelled like the compiler's internal end-if marker, in every shape with an if
			seenFi := map[string]bool{}
			for _, u := range units {
				src := u.Args[0]
				if u.Args[2] == "v" && strings.Contains(src, "(if ") && strings.Contains(src, "i0") && !seenFi[src] {
					seenFi[src] = true
					units = append(units, Unit{"VerifC01", []string{replaceAtom(src, "i0", "fi"), "keys", "v"}})
				}
			}
			// integer literals denote their decimal value wherever they are written
			for _, sk := range []string{"d", "dd", "0d", "0dd", "00d", "-d", "-0d", "-0dd", "ddd", "0", "00", "-0", "1dddd", "0dddd"} {
				for _, where := range []string{"operand", "only", "list", "infix", "infix-list", "folded"} {
					if strings.HasPrefix(sk, "-") && strings.HasPrefix(where, "infix") {
						continue // a minus sign in front of a literal is an operator in infix notation
					}
					units = append(units, Unit{"VerifC01Literal", []string{sk, where}})
				}
			}
			small := 1
			if tier == "thorough" {
				small = 2
			}
			for _, src := range shapeFamily(small, leavesStandard, false, "BI") {
				units = append(units, Unit{"VerifC01", []string{src, "undef", "f"}})
				if strings.Contains(src, "K") {
					units = append(units, Unit{"VerifC01", []string{src, "shadow", "v"}})
				}
			}
			return units
		},
		Reach: []string{"value", "sentinel", "builtin-error", "evalbool-nonbool", "literal"},
		Bounds: func(tier string) map[string]interface{} {
			maxM, _ := shapeTierParams(tier)
			return map[string]interface{}{"shapes": "all typed shapes with ≤" + itoa(maxM) + " internal nodes (grammar of DESIGN.md §3) + jump-stress family",
				"values": "every variable: arbitrary int64/bool, unbound (own sentinel error) or wrong-typed; constants arbitrary; custom operators fail on arbitrary arguments"}
		},
		Rule: "one unit per (shape with leaf assignment, registration mode); a state is one symbolic path through Compile+Eval+reference evaluation",
		Assumptions: []string{"operands of and/or are boolean-typed or failing (property quantifier; assumed in the reference)",
			"one representative operator per class inside composite programs (and/or/not/if/>/=/+// and custom p,q); the individual operators are covered by C18"},
		WallBudget: func(tier string) time.Duration {
			if tier == "thorough" {
				return 40 * time.Minute
			}
			return 8 * time.Minute
		},
	})
}

func init() {
	registerProp(&PropSpec{
		ID: "C02",
		Units: func(tier string, seed int64, sh *Shared) []Unit {
			maxM, pol := shapeTierParams(tier)
			var units []Unit
			add := func(src, mode, cost, st string) {
				cfgs := "all"
				if cost == "sym" {
					cfgs = "ro"
				}
				units = append(units, Unit{"VerifC02", []string{src, mode, cost, st, cfgs}})
			}
			var family []string
			withAllAliases(func() []Unit { family = shapeFamily(maxM, pol, false, "BI"); return nil })
			for _, src := range family {
				add(src, "v", "", "")
				hasOp := strings.Contains(src, "(p ") || strings.Contains(src, "(q ")
				if hasOp {
					add(src, "v", "", "pq")
				}
			}
			for _, src := range undefModeShapes(tier) {
				units = append(units, Unit{"VerifC02", []string{src, "v", "", "", "all", "undef"}})
			}
			// symbolic costs: all-variable leaf assignment (constants carry no configurable cost)
			for _, src := range shapeFamily(maxM, leavesVarsOnly, false, "BI") {
				if strings.Contains(src, "and") || strings.Contains(src, "or") {
					add(src, "v", "sym", "")
				}
			}
			// wrong-typed values and special float costs on the smaller family
			small := 1
			if tier == "thorough" {
				small = 2
			}
			for _, src := range shapeFamily(small, leavesStandard, false, "BI") {
				add(src, "w", "", "")
				if strings.Contains(src, "KI") {
					add(src, "r", "", "") // integer constants of a non-canonical Go type
				}
			}
			// constants of different types that print alike, in one program and across the programs of a run
			for _, src := range []string{"(and (= 1 1) (= \"1\" 1) b0)", "(or (!= \"2\" 2) (!= 2 2) b0)", "(if (= true \"true\") 1 2)", "(and (in \"a\" (\"a\" \"b\")) (in \"a\" (\"a b\")) b0)",
				"(or (= \"1\" 1) (= 1 1))", "(and (in 1 (1 2)) (in \"1\" (\"1\" \"2\")) (in \"1 2\" (\"1 2\")))", "(= (+ 1 1) \"2\")"} {
				add(src, "v", "", "")
			}
			for _, src := range []string{"(= KI0 10)", "(if (= KI0 10) 1 2)", "(and (= KI0 KI1) b0)", "(or b0 (!= KI0 3))", "(eq KI0 KI0 7)", "(> (+ KI0 1) i0)"} {
				add(src, "r", "", "")
			}
			for _, src := range shapeFamily(small, leavesVarsOnly, false, "BI") {
				if strings.Contains(src, "and") || strings.Contains(src, "or") {
					for _, c := range []string{"nan", "inf", "ninf", "negzero", "half", "huge", "nhuge"} {
						add(src, "v", c, "")
					}
				}
			}
			for _, shp := range stressShapes() {
				n := len(leafSlots(shp))
				src := assignLeaves(shp, strings.Repeat("v", n))
				add(src, "v", "", "")
				if n <= 5 {
					add(src, "v", "sym", "")
				}
				if n <= 6 {
					for _, v := range leafVariants(shp, leavesStandard) {
						if v != src {
							add(v, "v", "", "")
						}
					}
				}
			}
			// directive ≡ option form (concrete, exhaustive over present-true / present-false / absent)
			dirShapes := []string{"(and (or b0 (and b1 b2)) (> i0 (+ 1 2)) b3)", "(if (and b0 true) (+ i0 (+ 1 2)) (/ i1 i2))"}
			names := []string{"constant_folding", "reduce_nesting", "fast_evaluation", "reordering"}
			for _, src := range dirShapes {
				for code := 0; code < 81; code++ {
					c := code
					want := ""
					var parts []string
					for k := 0; k < 4; k++ {
						switch c % 3 {
						case 0:
							want += "-"
						case 1:
							want += "1"
							parts = append(parts, names[k]+": true")
						case 2:
							want += "0"
							parts = append(parts, names[k]+":false")
						}
						c /= 3
					}
					d := ""
					if len(parts) > 0 {
						d = ";;;; " + strings.Join(parts, ", ")
					}
					units = append(units, Unit{"VerifC02Directive", []string{src, d, want}})
				}
				units = append(units, Unit{"VerifC02Directive", []string{src, ";;;; optimize: false", "0000"}})
				units = append(units, Unit{"VerifC02Directive", []string{src, ";;;; optimize: false\n;;;; reordering: true, constant_folding: true", "1001"}})
				units = append(units, Unit{"VerifC02Directive", []string{src, ";; plain comment\n;;;; optimize:true", "1111"}})
			}
			return units
		},
		Reach: []string{"strict-ok", "a3", "unopt-fails", "directive"},
		Bounds: func(tier string) map[string]interface{} {
			maxM, _ := shapeTierParams(tier)
			return map[string]interface{}{"shapes": "all typed shapes with ≤" + itoa(maxM) + " internal nodes + jump-stress family",
				"configurations": "all 16 optimisation subsets, compared pairwise on one symbolic binding",
				"costs":          "symbolic integer-valued costs |c| ≤ 2^40 for up to 3 variables, p and the `variable` default; concrete NaN/±Inf/-0/0.5/±1e300",
				"directives":     "all 3^4 present-true/present-false/absent combinations + optimize master switch on 2 shapes (concrete)"}
		},
		Rule: "one unit per (shape, fault mode, cost mode, stateless declaration); each unit compiles the shape under all 16 subsets; a state is one symbolic path",
		Assumptions: []string{"symbolic costs are integer-valued doubles with |c| ≤ 2^40 (exact as SMT Int; sums stay below 2^53); non-integer/NaN/Inf costs only as concrete values",
			"every variable is bound (property quantifier); failures come from operators and wrong-typed values"},
		WallBudget: func(tier string) time.Duration {
			if tier == "thorough" {
				return 40 * time.Minute
			}
			return 10 * time.Minute
		},
	})
}

func shapeUnits(tier string, entry string, variants [][]string, stressVariants [][]string) []Unit {
	return shapeUnitsMax(tier, entry, variants, stressVariants, 100)
}

// shapeUnitsMax limits the jump-stress family to shapes with at most maxLeaves leaves.
func shapeUnitsMax(tier string, entry string, variants [][]string, stressVariants [][]string, maxLeaves int) []Unit {
	maxM, pol := shapeTierParams(tier)
	var units []Unit
	for _, src := range shapeFamily(maxM, pol, false, "BI") {
		for _, v := range variants {
			units = append(units, Unit{entry, append([]string{src}, v...)})
		}
	}
	for _, shp := range stressShapes() {
		n := len(leafSlots(shp))
		if n > maxLeaves {
			continue
		}
		src := assignLeaves(shp, strings.Repeat("v", n))
		for _, v := range stressVariants {
			units = append(units, Unit{entry, append([]string{src}, v...)})
		}
		if n <= 6 {
			for _, lv := range leafVariants(shp, leavesStandard) {
				if lv != src {
					units = append(units, Unit{entry, append([]string{lv}, stressVariants[0]...)})
				}
			}
		}
	}
	return units
}

// undefModeShapes: the sources run once more with nothing registered and AllowUndefinedVariable on
// (all variables then share the undefined key and are told apart by name only).
func undefModeShapes(tier string) []string {
	m := 1
	if tier == "thorough" {
		m = 2
	}
	out := shapeFamily(m, leavesStandard, false, "BI")
	return append(out, "(and (> i0 i1) (= i2 i3) b0)", "(or b0 (and b1 (< i0 i1)) (if b2 (= i0 i2) b3))", "(if (<= i0 i1) (+ i0 i2) (- i1 i0))")
}

func shapeBounds(extra map[string]interface{}) func(tier string) map[string]interface{} {
	return func(tier string) map[string]interface{} {
		maxM, _ := shapeTierParams(tier)
		b := map[string]interface{}{"shapes": "all typed shapes with ≤" + itoa(maxM) + " internal nodes (leaf variants: all variables, each single leaf a symbolic constant, all constants, one literal, one variable repeated in every position of its sort; the single-operator shapes also with < <= >= ge le != eq ne - % mod in place of > = + /) + jump-stress family",
			"registration":   "variables registered with explicit keys; C02–C05 also run the shapes with ≤1 (thorough ≤2) internal nodes with nothing registered and AllowUndefinedVariable on",
			"configurations": "all 16 optimisation subsets per unit"}
		for k, v := range extra {
			b[k] = v
		}
		return b
	}
}

func shapeBudget(tier string) time.Duration {
	if tier == "thorough" {
		return 40 * time.Minute
	}
	return 10 * time.Minute
}

func init() {
	registerProp(&PropSpec{
		ID: "C03",
		Units: func(tier string, seed int64, sh *Shared) []Unit {
			units := shapeUnits(tier, "VerifC03", [][]string{{"v"}, {"f"}}, [][]string{{"v"}})
			for _, src := range undefModeShapes(tier) {
				units = append(units, Unit{"VerifC03", []string{src, "v", "undef"}})
			}
			return units
		},
		Reach:       []string{"trace"},
		Bounds:      shapeBounds(map[string]interface{}{"effects": "every VariableFetcher.Get and every call of the registered operators p,q (arguments, result/failure) as symbolic terms; fetches may fail in mode f"}),
		Rule:        "one unit per (shape, fault mode); each unit runs all 16 subsets; a state is one symbolic path; the oracle tree is re-read from Dump",
		Assumptions: []string{"a two-leaf and/or under FastEvaluation may fetch both leaves (stated by the property); both the strict and the relaxed trace are accepted there"},
		WallBudget:  shapeBudget,
	})
	registerProp(&PropSpec{
		ID: "C04",
		Units: func(tier string, seed int64, sh *Shared) []Unit {
			c := tierConfigs(tier)
			units := shapeUnitsMax(tier, "VerifC04", [][]string{{"split", c}, {"all", c}}, [][]string{{"split", c}}, 7)
			for _, src := range undefModeShapes(tier) {
				units = append(units, Unit{"VerifC04", []string{src, "split", c, "undef"}}, Unit{"VerifC04", []string{src, "all", c, "undef"}})
			}
			// available variables holding nil
			var nilUnits []Unit
			for _, src := range append(shapeFamily(1, leavesVarsOnly, false, "BI"), "(and (= i0 i1) b0)", "(or b0 (!= i0 i1))", "(if (= i0 i1) i2 i3)", "(= i0 i1 i2)", "(and (eq i0 i1) (ne i2 i3))") {
				nilUnits = append(nilUnits, Unit{"VerifC04", []string{src, "splitn", c}})
			}
			units = append(nilUnits, units...)
			return units
		},
		Reach:       []string{"definite", "completion-succeeds", "larger-mask-definite", "all-available"},
		Bounds:      shapeBounds(map[string]interface{}{"availability": "arbitrary mask (one symbolic Boolean per variable), arbitrary larger mask, completions as fresh symbols"}),
		Rule:        "one unit per (shape, variant); all 16 subsets per unit; a state is one symbolic path through TryEval / Eval / TryEval",
		Assumptions: []string{"Eval on the completion succeeds (property quantifier)"},
		WallBudget:  shapeBudget,
	})
	registerProp(&PropSpec{
		ID: "C05",
		Units: func(tier string, seed int64, sh *Shared) []Unit {
			c := tierConfigs(tier)
			units := shapeUnitsMax(tier, "VerifC05", [][]string{{c}}, [][]string{{c}}, 7)
			for _, src := range undefModeShapes(tier) {
				units = append(units, Unit{"VerifC05", []string{src, c, "undef"}})
			}
			// the library's own fetchers with variables registered only in an extended config
			// (dense key layouts: with sparse keys the extension's variables land inside the slice, where the
			// library's slice fetcher reports an empty slot as cached — outside what the property states)
			for _, ks := range []string{"0", "1", "0,1", "1,2", "0,1,2", "1,2,3", "3,300", "-1,2", "2,1,3,4"} {
				units = append(units, Unit{"VerifC05Fetchers", []string{ks, "slice"}}, Unit{"VerifC05Fetchers", []string{ks, "map"}})
			}
			return units
		},
		Reach:       []string{"kleene-definite", "kleene-undecided", "dne"},
		Bounds:      shapeBounds(map[string]interface{}{"availability": "arbitrary mask (one symbolic Boolean per variable)"}),
		Rule:        "one unit per shape; all 16 subsets per unit; reference = strong Kleene evaluation of the source tree",
		Assumptions: []string{"no sub-expression fails under the underlying binding (property quantifier; assumed via strict reference evaluation)"},
		WallBudget:  shapeBudget,
	})
}

// tierConfigs: the optimisation subsets run per unit by the TryEval checks. quick uses a
// covering subset (none, all, FastEvaluation only, ReduceNesting+Reordering, folding+fast);
// thorough all 16.
func tierConfigs(tier string) string {
	if tier == "thorough" {
		return "all"
	}
	return "0000,1111,0010,0101,1010"
}

func init() {
	registerProp(&PropSpec{
		ID:   "C07",
		Race: true,
		Units: func(tier string, seed int64, sh *Shared) []Unit {
			return withoutAliases(func() []Unit {
				c := tierConfigs(tier)
				units := shapeUnitsMax(tier, "VerifC07", [][]string{{"foot", "", "v", c}}, [][]string{{"foot", "event", "v", c}}, 7)
				// deep operand stacks (allocation classes 8 / 16 / program size) and list operators with long literals
				for _, d := range []int{7, 8, 9, 15, 16, 17, 20} {
					src := strings.Repeat("(+ i0 ", d) + "i1" + strings.Repeat(")", d)
					units = append(units, Unit{"VerifC07", []string{"(> " + src + " i2)", "foot", "", "v", c}})
					units = append(units, Unit{"VerifC07", []string{"(> " + src + " i2)", "hist", "", "v", "0000,1111"}})
				}
				units = append(units, Unit{"VerifC07", []string{"(> (+ i0 i1 i2 i3 i4 i5 i6 i7 i8 i9 i10 i11 i12 i13 i14 i15 i16 i17) i18)", "foot", "event", "v", c}})
				// long lists (the hashing path of overlap / in)
				var la, lb []string
				for k := 0; k < 60; k++ {
					la = append(la, itoa2(k))
					lb = append(lb, itoa2(100+k))
				}
				long := "(and (> i0 0) (overlap (" + strings.Join(la, " ") + ") (" + strings.Join(lb, " ") + ")))"
				units = append(units, Unit{"VerifC07", []string{long, "foot", "", "v", "0000,1111"}}, Unit{"VerifC07", []string{"(or b0 " + long + ")", "foot", "event", "v", "0000"}})
				for _, src := range []string{"(in i0 (1 2 3 4 5 6 7 8 9 10 11 12))", "(and b0 (in i0 (1 2 3 4 5 6 7 8 9)) (in i1 (1 2)))", "(overlap (1 2 3 4 5 6 7 8 9 10) (11 12 13 14 15 16 17 18 19 20 1))",
					"(or (in i0 (3 4 5 6 7 8 9 10 11)) (= i1 (+ i0 1)))", "(if (in i0 (1 2 3 4 5 6 7 8 9)) (+ i1 1) (- i1 1))"} {
					units = append(units, Unit{"VerifC07", []string{src, "foot", "", "v", c}})
					units = append(units, Unit{"VerifC07", []string{src, "foot", "event", "v", "0000,1111"}})
					units = append(units, Unit{"VerifC07", []string{src, "hist", "", "v", "0000,1111"}})
				}
				// debug mode and the history clause on the small family
				small := 1
				if tier == "thorough" {
					small = 2
				}
				for _, src := range shapeFamily(small, leavesStandard, false, "BI") {
					units = append(units, Unit{"VerifC07", []string{src, "foot", "debug", "v", c}})
					units = append(units, Unit{"VerifC07", []string{src, "foot", "event", "f", c}})
					units = append(units, Unit{"VerifC07", []string{src, "hist", "", "f", c}})
					units = append(units, Unit{"VerifC07", []string{src, "hist", "event", "v", c}})
				}
				return units
			})
		},
		Reach: []string{"evaluated", "history"},
		Bounds: shapeBounds(map[string]interface{}{"monitor": "every Store / MapUpdate / copy / append-in-place / sort swap executed on any path is checked against the set of slots reachable from *Expr at freeze time; stores to package variables outside init are counted",
			"configurations": "quick: 5 covering optimisation subsets; thorough: all 16; event modes off / ReportEvent / Debug"}),
		Rule:        "one unit per (shape, variant, event mode, fault mode); a state is one symbolic path of TryEval+Eval+Dump+DumpTable under the frozen-heap monitor",
		Assumptions: []string{"interleavings are not explored: the schedule quantifier is discharged by non-interference (no call writes memory another call can read, channel sends are synchronisation); user-supplied fetchers/operators that share state are outside the property"},
		WallBudget:  shapeBudget,
	})
	registerProp(&PropSpec{
		ID: "C10",
		Units: func(tier string, seed int64, sh *Shared) []Unit {
			maxM, _ := shapeTierParams(tier)
			var units []Unit
			pol := leavesExhaustVK
			if maxM > 2 {
				pol = leavesStandard
			}
			var family []string
			withAllAliases(func() []Unit { family = shapeFamily(maxM, pol, false, "BI"); return nil })
			for _, src := range family {
				units = append(units, Unit{"VerifC10", []string{src, "", "all"}})
				hasP, hasQ, hasZ := strings.Contains(src, "(p "), strings.Contains(src, "(q "), strings.Contains(src, "(z)")
				if hasP || hasQ || hasZ {
					units = append(units, Unit{"VerifC10", []string{src, "pqz", "all"}})
					units = append(units, Unit{"VerifC10", []string{src, "pqz", "all", "value"}})
					// one operator declared, the others merely registered
					if hasP {
						units = append(units, Unit{"VerifC10", []string{src, "qz", "all"}})
					}
					if hasQ {
						units = append(units, Unit{"VerifC10", []string{src, "pz", "all"}})
					}
					if hasZ {
						units = append(units, Unit{"VerifC10", []string{src, "pq", "all"}})
					}
				}
			}
			for _, src := range []string{
				"(and (> (/ 7 KI0) 1) b0)", "(or b0 (= (/ KI0 KI1) 2))", "(if (> (/ 1 0) 0) i0 i1)", "(+ (/ 7 0) i0)", "(and false (> (/ 1 0) 0))",
				"(and (p KB0) (> (/ 7 KI0) i0) b0)", "(or (p true) (p false) b0)", "(+ (q 1) (q KI0) i0)", "(and b0 (or KB0 (p b1)) (not (p KB1)))",
				"(and (or b0 KB0) (or KB1 b1) b2)", "(or (and b0 KB0) (and KB1 b1) b2)", "(if KB0 (and b0 KB1) (or b1 KB2))",
				// membership in the empty list is not decided by the list alone: the other operand still runs, fails, has its type
				"(or (in (q i0) ()) b0)", "(in (/ 7 KI0) ())", "(and (not (in (p b0) ())) b1)", "(if (in i0 ()) (q 1) i1)", "(in (q KI0) ())",
			} {
				units = append(units, Unit{"VerifC10", []string{src, "", "all"}}, Unit{"VerifC10", []string{src, "pqz", "all"}}, Unit{"VerifC10", []string{src, "p", "all"}},
					Unit{"VerifC10", []string{src, "q", "all"}}, Unit{"VerifC10", []string{src, "pqz", "all", "value"}}, Unit{"VerifC10", []string{src, "p", "all", "decoy"}})
			}
			for _, src := range shapeFamily(1, leavesExhaustVK, false, "BI") {
				units = append(units, Unit{"VerifC10", []string{src, "", "all", "decoy"}})
			}
			return units
		},
		Reach:      []string{"undeclared", "must-remain", "evaluated"},
		Bounds:     shapeBounds(map[string]interface{}{"leaf_assignment": "every variable/symbolic-constant assignment for ≤2 internal nodes", "evaluations": "2 per compilation"}),
		Rule:       "one unit per (shape with leaf assignment, stateless declaration); all 16 subsets per unit; symbolic constants make every fold a fork on success/failure",
		WallBudget: shapeBudget,
	})
	registerProp(&PropSpec{
		ID: "C12",
		Units: func(tier string, seed int64, sh *Shared) []Unit {
			return withoutAliases(func() []Unit {
				c := tierConfigs(tier)
				small := 1
				if tier == "thorough" {
					small = 2
				}
				var first []Unit
				// the optimisation switches left unset (library defaults) in both the plain and the event-mode config
				dfl := shapeFamily(small, leavesVarsOnly, false, "BI")
				dfl = append(dfl, "(and (> i0 i1) b0)", "(or (= (/ 10 i0) 5) b0)", "(and (or (> i0 1) b0) b1)", "(if (and (= i0 i1) b0) (+ i0 1) i1)", "(or (and (> (+ i0 i1) 2) b0) b1 (not b2))")
				for _, src := range dfl {
					for _, ev := range []string{"debug", "event", "both"} {
						first = append(first, Unit{"VerifC12", []string{src, ev, "v", "dflt"}})
					}
				}
				units := append(first, shapeUnitsMax(tier, "VerifC12", [][]string{{"event", "v", c}}, [][]string{{"event", "v", c}}, 7)...)
				for _, src := range shapeFamily(small, leavesStandard, false, "BI") {
					units = append(units, Unit{"VerifC12", []string{src, "debug", "v", c}})
					units = append(units, Unit{"VerifC12", []string{src, "event", "f", c}})
					units = append(units, Unit{"VerifC12", []string{src, "both", "v", "0000,1111"}})
				}
				// operand stacks of every allocation class (≤8, ≤16, larger): wide and deep arithmetic
				for _, n := range []int{8, 9, 16, 17, 18} {
					var vs []string
					for k := 0; k < n; k++ {
						vs = append(vs, fmt.Sprintf("i%d", k))
					}
					wide := "(+ " + strings.Join(vs, " ") + ")"
					deep := ""
					for k := 0; k < n-1; k++ {
						deep += "(+ " + vs[k] + " "
					}
					deep += vs[n-1] + strings.Repeat(")", n-1)
					for _, src := range []string{wide, deep} {
						units = append(units, Unit{"VerifC12", []string{src, "event", "v", "0000,1111"}})
					}
					units = append(units, Unit{"VerifC12", []string{wide, "debug", "v", "0000"}})
				}
				return units
			})
		},
		Reach:      []string{"eval-events", "builtin-events"},
		Bounds:     shapeBounds(map[string]interface{}{"consumer": "events are read only after the evaluation has returned (retaining / buffered consumer)", "stacks": "wide (one operator) and deep (right-nested) sums of 8, 9, 16, 17, 18 variables: every operand-stack allocation class", "configurations": "quick: 5 covering subsets; thorough: all 16"}),
		Rule:       "one unit per (shape, event option, fault mode); a state is one symbolic path through plain Eval, event Eval, reference evaluation and TryEval",
		WallBudget: shapeBudget,
	})
}

// literalShapes: the shape family with variable and literal leaves only (Dump prints
// constants by value, so symbolic constants cannot be re-read from its text).
func literalShapes(maxM int, tier string) []string {
	ss := newShapeSet(false)
	seen := map[string]bool{}
	var out []string
	add := func(s string) {
		if !seen[s] {
			seen[s] = true
			out = append(out, s)
		}
	}
	variants := func(shape string) {
		n := len(leafSlots(shape))
		add(assignLeaves(shape, strings.Repeat("v", n)))
		for i := 0; i < n; i++ {
			b := []byte(strings.Repeat("v", n))
			b[i] = 'l'
			add(assignLeaves(shape, string(b)))
		}
		add(assignLeaves(shape, strings.Repeat("l", n)))
		if n >= 2 {
			b := []byte(strings.Repeat("l", n))
			b[n-1] = 'v'
			add(assignLeaves(shape, string(b)))
		}
	}
	for m := 1; m <= maxM; m++ {
		for _, sh := range ss.B(m) {
			variants(sh)
		}
		for _, sh := range ss.I(m) {
			variants(sh)
		}
	}
	for _, sh := range stressShapes() {
		if len(leafSlots(sh)) <= 8 {
			add(assignLeaves(sh, strings.Repeat("v", len(leafSlots(sh)))))
		}
	}
	// integer literal boundaries (FormatInt / ParseInt are standard library: concrete values only)
	for _, lit := range []string{"9223372036854775807", "-9223372036854775808", "-1", "0", "+5", "007"} {
		add("(+ i0 " + lit + ")")
		add("(= i0 " + lit + ")")
	}
	return out
}

func init() {
	registerProp(&PropSpec{
		ID: "C13",
		Units: func(tier string, seed int64, sh *Shared) []Unit {
			maxM, _ := shapeTierParams(tier)
			var units []Unit
			for _, src := range literalShapes(maxM, tier) {
				units = append(units, Unit{"VerifC13", []string{src, "", "all"}})
			}
			for _, src := range literalShapes(1, tier) {
				units = append(units, Unit{"VerifC13", []string{src, "event", "all"}}, Unit{"VerifC13", []string{src, "debug", "all"}}, Unit{"VerifC13", []string{src, "both", "0000,1111"}})
			}
			// string literal contents: arbitrary characters through lexer → Dump → lexer
			maxL := 2
			if tier == "thorough" {
				maxL = 3
			}
			for l := 0; l <= maxL; l++ {
				for _, form := range []string{"eq", "nested", "list", "mixed", "mixed-rev"} {
					for _, o := range []string{"0000", "1111"} {
						if l == 3 && o == "1111" {
							continue
						}
						if strings.HasPrefix(form, "mixed") && (l == 0 || l > 2) {
							continue
						}
						units = append(units, Unit{"VerifC13Literal", []string{itoa2(l), form, o}})
					}
				}
			}
			return units
		},
		Reach: []string{"recompiled", "folded-to-scalar"},
		Bounds: shapeBounds(map[string]interface{}{"leaves": "variables and int/bool literals (each single leaf a literal, all literals, all but the last)", "event_modes": "off for all shapes; ReportEvent and Debug for shapes with ≤1 internal node",
			"string_literals": "literals of ≤2 (3 thorough) arbitrary characters (all of Latin-1 as solver variables + U+1680, U+2028, U+3000, '中', '٣', U+FFFD, U+10FFFF, NUL; no double quote) as operand of =, inside an indented sub-expression and as list element"}),
		Rule:        "one unit per (shape, event mode); all 16 subsets per unit; a state is one symbolic path through Eval of the original and of the recompiled program",
		Assumptions: []string{"string/list literal contents are covered by the literal sub-check (symbolic characters), see evidence bounds; constants produced by folding a stateless custom operator have no literal form (outside the property)"},
		WallBudget:  shapeBudget,
	})
}

func varsOf(src string) []string {
	seen := map[string]bool{}
	var out []string
	for _, tok := range strings.FieldsFunc(src, func(r rune) bool { return r == '(' || r == ')' || r == ' ' }) {
		if len(tok) >= 2 && (tok[0] == 'b' || tok[0] == 'i') && tok[1] >= '0' && tok[1] <= '9' && !seen[tok] {
			seen[tok] = true
			out = append(out, tok)
		}
	}
	return out
}

func init() {
	registerProp(&PropSpec{
		ID: "C16",
		Units: func(tier string, seed int64, sh *Shared) []Unit {
			return withoutAliases(func() []Unit {
				maxM, _ := shapeTierParams(tier)
				var srcs []string
				for _, s := range shapeFamily(maxM, leavesVarsOnly, false, "BI") {
					if strings.Contains(s, "and") || strings.Contains(s, "or") {
						srcs = append(srcs, s)
					}
				}
				extra := []string{
					"(and b0 b1 b2 b3)", "(or (> i0 i1) b0 (= i2 i3) b1)", "(and (> i0 i1) (> i2 i3) (> i4 i5))", "(and (p b0) b1 (p b2))",
					"(or (and b0 b1) (and b2 b3) (and b4 b5))", "(and (or b0 (> i0 i1)) (or b1 (> i2 i3)) b2)", "(and (if b0 b1 b2) b3 (not b4))",
					"(if (and b0 b1 b2) (or b3 b4 b5) b6)", "(and b0 (> (+ i0 i1) i2) (= (q i3) i4) b1)", "(and (> i0 1) (> i1 1) b0 (> i2 1))",
				}
				srcs = append(srcs, extra...)
				var units []Unit
				for _, s := range srcs {
					vs := varsOf(s)
					for k, x := range vs {
						if k >= 3 {
							break
						}
						units = append(units, Unit{"VerifC16", []string{s, x, "pair", ""}})
						if k == 0 {
							units = append(units, Unit{"VerifC16", []string{s, x, "pair", "vo"}})
						}
					}
					if strings.Contains(s, "(p ") {
						units = append(units, Unit{"VerifC16", []string{s, "p", "pair", ""}})
					}
					// the name whose cost is raised may be an operator name
					for k, op := range opsOf(s) {
						if k >= 2 {
							break
						}
						// `if` is a keyword, not an operator with a configurable cost
						if op != "p" && op != "if" {
							units = append(units, Unit{"VerifC16", []string{s, op, "pair", ""}})
						}
					}
					units = append(units, Unit{"VerifC16", []string{s, vs[0], "equal", ""}}, Unit{"VerifC16", []string{s, vs[0], "equal", "v"}})
				}
				// one operand written twice (the multiset, not the set, is kept), and variables nobody registered
				for _, s := range []string{"(and b0 b0 b1)", "(and b1 b0 b0)", "(or b0 b1 b0 b1)", "(and (> i0 1) b0 b0 b1)", "(and b0 (or b1 b1 b2) b0)", "(or (and b0 b1) (and b0 b1) b2)", "(and b0 b1 b0)"} {
					for _, x := range varsOf(s) {
						units = append(units, Unit{"VerifC16", []string{s, x, "pair", ""}})
					}
					units = append(units, Unit{"VerifC16", []string{s, "b0", "equal", ""}}, Unit{"VerifC16", []string{s, "b1", "equalx", "v"}}, Unit{"VerifC16", []string{s, "b0", "pair", "", "undef"}})
				}
				for _, s := range append(append([]string{}, extra...), "(and b0 b1)", "(or b0 b1 b2)", "(and (> i0 i1) b0)", "(or (= i0 1) (= i1 1) (= i2 1))") {
					vs := varsOf(s)
					for k, x := range vs {
						if k == 0 || k == len(vs)-1 || k == 1 {
							units = append(units, Unit{"VerifC16", []string{s, x, "pair", "", "undef"}})
						}
					}
					units = append(units, Unit{"VerifC16", []string{s, vs[0], "equal", "", "undef"}}, Unit{"VerifC16", []string{s, vs[len(vs)-1], "pair", "vo", "undef"}})
				}
				// alias spellings of and/or are names of their own: a cost entry for one spelling says nothing about the others
				for _, s := range []string{"(or (&& b0 b1) (and b2 b3))", "(or (and b0 b1) (&& b2 b3) (|| b4 b5))", "(and (= i0 1) (| b0 b1) (or b2 b3))",
					"(& (|| b0 b1) (or b2 b3) b4)", "(and (or b0 b1) (& b2 b3) (&& b4 b5))", "(|| (and b0 b1) (& b2 b3) (> i0 i1))"} {
					for _, op := range opsOf(s) {
						units = append(units, Unit{"VerifC16", []string{s, op, "pair", ""}})
					}
					units = append(units, Unit{"VerifC16", []string{s, "b0", "pair", "vo"}}, Unit{"VerifC16", []string{s, "b0", "equal", ""}})
				}
				// many operands (the sort switches algorithm above 12 elements): ties must still keep source order
				for _, n := range []int{5, 12, 13, 14, 20, 33} {
					var parts []string
					for k := 0; k < n; k++ {
						parts = append(parts, fmt.Sprintf("(= i%d 7)", k))
					}
					wide := "(and " + strings.Join(parts, " ") + ")"
					for _, x := range []string{"i0", fmt.Sprintf("i%d", n/2), fmt.Sprintf("i%d", n-1)} {
						units = append(units, Unit{"VerifC16", []string{wide, x, "equalx", ""}})
					}
					units = append(units, Unit{"VerifC16", []string{wide, "i0", "equal", ""}})
					units = append(units, Unit{"VerifC16", []string{strings.Replace(wide, "(and ", "(or ", 1), "i1", "equalx", "v"}})
				}
				for _, s := range append(shapeFamily(1, leavesVarsOnly, false, "B"), extra...) {
					if !(strings.Contains(s, "and") || strings.Contains(s, "or")) {
						continue
					}
					for _, sp := range []string{"nan", "inf", "ninf", "negzero", "half", "huge", "nhuge"} {
						units = append(units, Unit{"VerifC16", []string{s, varsOf(s)[0], sp, ""}})
					}
				}
				return units
			})
		},
		Reach: []string{"pair", "p3", "p4", "p5", "equal-cost-siblings", "special-cost"},
		Bounds: func(tier string) map[string]interface{} {
			maxM, _ := shapeTierParams(tier)
			return map[string]interface{}{"shapes": "all typed shapes with ≤" + itoa(maxM) + " internal nodes containing and/or (all-variable leaves) + 10 wider shapes (≤4 and/or operands) + 6 shapes mixing the alias spellings & && | || with and/or; the raised name is a variable, a custom operator or an operator name (the first two of each shape, every one in the alias shapes) + and/or with 5, 12, 13, 14, 20, 33 tying operands (one name with its own cost) + 7 shapes with one operand written twice + 14 shapes with nothing registered (AllowUndefinedVariable)",
				"costs": "integer-valued symbolic costs in [-10^6,10^6] for up to 3 other names, the `variable`/`operator` defaults present or absent; the raised entry ranges up to 2^40; concrete NaN/±Inf/-0/0.5/±1e300 for P1 only",
				"sort":  "every comparison outcome of the real sort.stable_func on symbolic costs is a path"}
		},
		Rule:        "one unit per (shape, name x whose cost is raised, mode); observation = Dump trees under the two cost maps",
		Assumptions: []string{"symbolic costs are integer-valued doubles (exact as SMT Int); assertions are formula-free: no particular built-in base cost is assumed"},
		WallBudget:  shapeBudget,
	})
}

func init() {
	registerProp(&PropSpec{
		ID: "C17",
		Units: func(tier string, seed int64, sh *Shared) []Unit {
			var units []Unit
			u := func(a ...string) { units = append(units, Unit{"VerifC17", a}) }
			small := [][2]int{{0, 0}, {0, 2}, {2, 0}, {1, 1}, {2, 3}, {3, 2}, {4, 4}}
			for _, p := range small {
				for _, t := range []string{"i", "s"} {
					u("overlap", t, itoa2(p[0]), itoa2(p[1]), "")
				}
			}
			big := [][2]int{{1, 99}, {99, 1}, {0, 100}, {100, 0}, {1, 98}}
			if tier == "thorough" {
				big = append(big, [2]int{50, 50}, [2]int{2, 97}, [2]int{98, 1}, [2]int{51, 50}, [2]int{60, 40}, [2]int{40, 60}, [2]int{49, 50}, [2]int{50, 49}, [2]int{3, 97})
			}
			for _, p := range big {
				u("overlap", "i", itoa2(p[0]), itoa2(p[1]), "")
			}
			u("overlap", "s", "1", "99", "")
			u("overlap", "s", "50", "50", "")
			u("overlap", "s", "3", "96", "")
			for _, t := range []string{"i", "s"} {
				u("overlap", t, "2", "3", "again")
				u("overlap", t, "1", "99", "again")
				u("overlap", t, "99", "2", "again")
				u("overlap", t, "50", "50", "again")
			}
			for _, n := range []int{0, 1, 2, 5, 99, 100, 101} {
				for _, t := range []string{"i", "s"} {
					u("in", t, "0", itoa2(n), "")
					u("in", t, "0", itoa2(n), "set")
				}
			}
			for _, t := range []string{"i", "s"} {
				u("overlap", t, "2", "2", "mismatch")
				u("overlap", t, "60", "60", "mismatch")
				u("in", t, "0", "2", "mismatch")
				u("overlap", t, "0", "2", "emptyA")
				u("overlap", t, "0", "120", "emptyA")
				u("overlap", t, "2", "0", "emptyB")
				u("overlap", t, "120", "0", "emptyB")
				u("in", t, "0", "0", "emptyB")
			}
			for _, c := range [][2]string{
				{"(overlap () (1 2))", "false"}, {"(overlap (1 2) ())", "false"}, {"(overlap () ())", "false"}, {"(overlap () (\"a\"))", "false"}, {"(overlap (\"a\") ())", "false"},
				{"(overlap li (3 4))", "true"}, {"(overlap li (4 5))", "false"}, {"(overlap ls (\"b\"))", "true"}, {"(overlap ls (\"q\"))", "false"}, {"(overlap li ls)", "error"}, {"(overlap ls li)", "error"},
				{"(overlap e li)", "false"}, {"(overlap li e)", "false"}, {"(overlap e ls)", "false"},
				{"(in n li)", "true"}, {"(in 7 li)", "false"}, {"(in s ls)", "true"}, {"(in \"q\" ls)", "false"}, {"(in n ())", "false"}, {"(in s ())", "false"}, {"(in n e)", "false"},
				{"(in n ls)", "error"}, {"(in s li)", "error"}, {"(in 2 (1 2 3))", "true"}, {"(in \"\" ())", "false"},
			} {
				units = append(units, Unit{"VerifC17Expr", []string{c[0], c[1]}})
			}
			for _, nt := range []string{"prefix", "infix"} {
				for _, o := range []string{"", "opt"} {
					for c := 0; c <= 6; c++ {
						units = append(units, Unit{"VerifC17Literal", []string{nt, "s", itoa2(c), o}})
					}
					for c := 0; c <= 2; c++ {
						units = append(units, Unit{"VerifC17Literal", []string{nt, "i", itoa2(c), o}})
					}
				}
			}
			return units
		},
		Reach: []string{"overlap", "in", "mismatch", "expr", "again", "list-literal"},
		Bounds: func(tier string) map[string]interface{} {
			return map[string]interface{}{"list_lengths": "overlap: (0,0) (0,2) (2,0) (1,1) (2,3) (3,2) (4,4) and around the 100-element switch (1,99) (99,1) (50,50) (0,100) (100,0) (2,97) (1,98) [+ (98,1) (51,50) (60,40) (40,60) (49,50) (50,49) (3,97) thorough]; in: 0,1,2,5,99,100,101 as list and as pre-built set",
				"list_literals": "string list literals with elements of 1 and 2 arbitrary characters (digits included) and integer list literals with arbitrary digits, prefix and infix, with and without optimisations",
				"elements":      "arbitrary int64 / arbitrary one-byte strings (solver variables), so duplicates and shared/disjoint elements are all covered at each length"}
		},
		Rule:       "one unit per (operator, element type, lengths, form); a state is one symbolic path (first-match position in the scan, or probe outcome in the hash path); oracle = the ∃-formula over the elements",
		TimeoutMs:  60000,
		Lazy:       true,
		Eager:      map[string]bool{"VerifC17Literal": true, "VerifC17Expr": true},
		WallBudget: func(tier string) time.Duration { return 60 * time.Minute },
	})
}

func itoa2(n int) string { return fmt.Sprintf("%d", n) }

func init() {
	registerProp(&PropSpec{
		ID: "C08",
		Units: func(tier string, seed int64, sh *Shared) []Unit {
			shapes := []string{"(and b0 (or KB0 b1))", "(if (> i0 KI0) (+ i1 (+ 1 2)) (q i2))", "(and (p b0) (> (+ 1 2) i0) (or b1 (and b2 b3)))", "(or (and b0 b1) (and (= i0 3) true))",
				"(and (p KB0) b0)", "(if (p true) (+ (q 2) KI0) i0)"}
			if tier == "thorough" {
				shapes = append(shapes, shapeFamily(1, leavesStandard, false, "BI")...)
			}
			directives := []string{"", ";;;; optimize: false\n", ";;;; reordering: false, constant_folding: true\n", ";; plain comment\n;;;; fast_evaluation:false\n;;;; reduce_nesting : true\n",
				";;;; optimize: true\n;;;;constant_folding:false\n"}
			bad := []string{";;;; reordering: bogus\n", ";;;; unknown_option: true\n", ";;;; reordering\n"}
			var units []Unit
			for _, s := range shapes {
				for _, opts := range []string{"1111", "0000", "0101"} {
					for _, d := range directives {
						units = append(units, Unit{"VerifC08", []string{d + s, "frozen", opts, s}})
					}
				}
				for _, d := range bad {
					units = append(units, Unit{"VerifC08", []string{d + s, "frozen", "1111", s}})
				}
				for _, m := range []string{s[:len(s)-1], s + ")", "(" + s, "(nosuchop " + s + ")", strings.Replace(s, "b0", "undefined_name", 1), ""} {
					if m != "" {
						units = append(units, Unit{"VerifC08", []string{m, "frozen", "1111", s}})
					}
				}
				units = append(units, Unit{"VerifC08", []string{s, "order", "1111", s}})
				units = append(units, Unit{"VerifC08", []string{s, "cross", "1111", s}}, Unit{"VerifC08", []string{s, "cross", "1000", s}})
				units = append(units, Unit{"VerifC08", []string{";;;; reordering: false\n" + s, "order", "0101", s}})
				// names the config does not know, accepted through the option or through a directive: the
				// bookkeeping for them belongs to the compilation, not to the caller's config
				und := strings.Replace(strings.Replace(s, "b0", "undefined_name", 1), "i0", "another_undefined", 1)
				for _, opts := range []string{"1111", "0000"} {
					units = append(units, Unit{"VerifC08", []string{und, "frozen", opts, s, "undef"}},
						Unit{"VerifC08", []string{";;;; allow_undefined_variable: true\n" + und, "frozen", opts, s}})
				}
				units = append(units, Unit{"VerifC08", []string{und, "order", "1111", s, "undef"}})
			}
			for _, lit := range []string{"(and (> 2 1) (or false (= 1 1)))", "(if (= (+ 1 2) 3) (* 2 3) (/ 1 0))", "(or (and true (< 3 2)) (in 2 (1 2 3)))"} {
				for _, d := range []string{";;;; optimize: false\n", ";;;; constant_folding: false, reordering: false\n", ";;;; allow_undefined_variable: true\n", ";;;; infix_notation: true\n", ""} {
					units = append(units, Unit{"VerifC08", []string{d + lit, "nil", "1111", lit}})
				}
			}
			units = append(units, Unit{"VerifC08Copy", []string{"copy"}}, Unit{"VerifC08Copy", []string{"extend"}})
			return units
		},
		Reach: []string{"compiled-frozen", "compile-ok", "compile-error", "recompiled", "cross", "copied", "nil-config"},
		Bounds: func(tier string) map[string]interface{} {
			return map[string]interface{}{"config": "2-4 entries per map (symbolic constant values and costs), StatelessOperators with spare capacity and an unregistered name in front; a second config using the same names for other contents (alternating compilations)", "nil_config": "Compile(nil, …) after a compilation with each of 5 directive texts; CopyConfig(nil) twice", "undefined_names": "each shape with two names the config does not know, accepted by option and by directive", "sources": "6 shapes, two of them calling custom operators on constants (+ all shapes ≤1 internal node thorough) × {no directive, 4 directive texts, 3 invalid directives, 5 malformed variants}",
				"map_orders": "every permutation of maps with ≤3 entries and every rotation of larger ones, for each of the five config maps, in the second compilation"}
		},
		Rule:        "one unit per (source text, variant, options); a state is one symbolic path (map iteration orders are explicit nondeterministic choices)",
		Assumptions: []string{"interleavings are not explored: concurrent Compile calls only read the shared Config (shown by the frozen-heap monitor), and concurrent map reads are race-free", "user data stored inside the config (constant values, operator closures) is shared by reference on purpose and is not 'mutable state of the config'"},
		WallBudget:  shapeBudget,
	})
}

func init() {
	registerProp(&PropSpec{
		ID: "C11",
		Units: func(tier string, seed int64, sh *Shared) []Unit {
			var units []Unit
			maxPre := 3
			scripts := []string{"n", "e", "nn", "ne", "en", "nen", "nnn"}
			if tier == "thorough" {
				maxPre = 4
				scripts = append(scripts, "nee", "enn", "nne", "ene")
			}
			for n := 0; n <= maxPre; n++ {
				for _, s := range scripts {
					units = append(units, Unit{"VerifC11Keys", []string{itoa2(n), s}})
				}
			}
			kinds := []string{"int", "int8", "int16", "int32", "int64", "uint8", "uint16", "uint32", "uint64", "bool", "string", "time", "duration", "ints", "int32s", "int64s", "strs", "ints0", "int32s0", "ints1"}
			layouts := []string{"explicit:0,1,2", "explicit:0,255,7", "explicit:0,256,7", "explicit:-1,3,4", "explicit:255,254,253", "explicit:32767,1,2", "explicit:5,6,-32768", "explicit:300,301,302",
				"symbolic-map", "hist:small:0:r", "hist:small:1:r", "hist:small:2:r", "hist:small:01:r", "hist:small:0:12", "hist:small:1:20", "hist:small:02:1", "hist:out:0:r", "hist:out:2:r", "hist:out:1:02", "hist:out:01:r", "register:012", "register:021", "register:102", "register:120", "register:201", "register:210", "regvarandop", "undefined", "evalfunc"}
			for li, l := range layouts {
				// every kind in every position over the layouts (rotating), plus uniform vectors on the first layouts
				for k := range kinds {
					a, b, c := kinds[k], kinds[(k+li+1)%len(kinds)], kinds[(k+2*li+5)%len(kinds)]
					units = append(units, Unit{"VerifC11Layout", []string{l, a + "," + b + "," + c}})
				}
			}
			return units
		},
		Reach: []string{"existing", "new", "layout"},
		Bounds: func(tier string) map[string]interface{} {
			return map[string]interface{}{"key_allocation": "0..3 (4 thorough) pre-registered names with arbitrary pairwise distinct int16 keys (solver variables), then ≤3 registrations of new/existing names",
				"layouts":  "8 explicit concrete key triples on both sides of the 0..255 fetcher boundary, arbitrary distinct symbolic keys with at least one outside 0..255 (map fetcher), a pre-populated key map (one or two names with arbitrary distinct keys in 0..6, or outside 0..255) followed by RegVarAndOp or GetOrRegisterKey for the remaining names (11 histories), GetOrRegisterKey in all 6 orders, RegVarAndOp and the Eval convenience function under every map iteration order, undefined-variable mode",
				"bindings": "17 Go kinds (int, int8-64, uint8-64, bool, string, time.Time, Duration, []int, []int32, []int64, []string) with arbitrary contents, every kind in every variable position"}
		},
		Rule:        "key units: one per (pre-registered count, script); layout units: one per (layout, kind vector); a state is one symbolic path",
		Assumptions: []string{"symbolic keys inside 0..255 for all variables at once (slice fetcher with symbolic length) are covered by the concrete boundary triples only"},
		WallBudget:  shapeBudget,
	})
}

func init() {
	registerProp(&PropSpec{
		ID: "C09",
		Units: func(tier string, seed int64, sh *Shared) []Unit {
			var units []Unit
			u := func(a ...string) { units = append(units, Unit{"VerifC09", a}) }
			for _, n := range []string{"2", "126", "127", "128", "129", "200"} {
				for _, o := range []string{"0000", "1111"} {
					u("operands", n, o, "")
				}
				u("operands", n, "0110", "event")
			}
			for _, ab := range []string{"63,64", "64,64", "64,65", "125,2", "126,2", "2,125", "2,126", "100,27", "100,28"} {
				for _, o := range []string{"0000", "0100", "1111", "0101"} {
					u("flatten", ab, o, "")
				}
				u("flatten", ab, "1111", "event")
			}
			for _, d := range []string{"6", "7", "8", "9", "14", "15", "16", "17", "40"} {
				for _, o := range []string{"0000", "0010", "1111"} {
					u("stack", d, o, "")
					u("stack", d, o, "event")
				}
				u("stack", d, "1111", "debug")
			}
			// an operand-less operator call is a push as well: at the deepest position around the 8 / 16 classes
			for _, n := range []string{"7", "8", "9", "10", "15", "16", "17", "18"} {
				for _, o := range []string{"0000", "1111"} {
					u("nullary", n, o, "")
				}
				u("nullary", n, "0010", "event")
				u("nullary-nested", n, "0000", "")
				u("nullary-nested", n, "1111", "")
			}
			// leaves spelled like the compiler's internal marker words must not be taken for its synthetic nodes
			for _, d := range []string{"7", "8", "9", "16", "17"} {
				for _, o := range []string{"0000", "1111"} {
					u("marker", d+",fi", o, "")
					u("marker-str", d+",fi", o, "")
				}
				u("marker-str", d+",if", "0000", "")
				u("marker", d+",fi", "0100", "event")
			}
			// stack slots beyond the int8 range, read by if / and / or jumps at the deepest point
			deep := []string{"127", "128", "129", "256"}
			if tier == "thorough" {
				deep = []string{"126", "127", "128", "129", "130", "255", "256", "257", "600"}
			}
			for _, d := range deep {
				for _, b := range []string{"if", "ifand", "and", "or"} {
					u("deep", d+","+b, "0000", "")
					u("deep", d+","+b, "1111", "")
				}
				u("deep", d+",ifand", "0010", "event")
			}
			// the operand-count limit applies wherever the operator sits, also below an if
			for _, n := range []string{"127", "128", "129", "200", "255", "256", "300"} {
				for _, p := range []string{"then", "else", "cond", "nested"} {
					u("operands-if", n+","+p, "0000", "")
					u("operands-if", n+","+p, "1111", "")
				}
			}
			for _, ab := range []string{"63,64", "64,64", "100,100", "127,127"} {
				for _, o := range []string{"0000", "0100", "1111"} {
					u("flatten-if", ab, o, "")
				}
			}
			for _, n := range []string{"16382", "16383", "16384", "16385"} {
				u("nodes", n, "0000", "event")
			}
			// event mode over programs made of two-leaf operators, with and without FastEvaluation
			for _, o := range []string{"0000", "1101", "0010", "1111"} {
				u("nodes-pairs", "16383", o, "event")
				u("nodes-pairs", "18061", o, "event")
			}
			u("nodes-pairs", "16384", "0000", "debug")
			u("nodes-pairs", "25000", "1101", "both")
			u("nodes", "16383", "0000", "both")
			u("nodes", "16384", "0000", "both")
			u("stack", "9", "0000", "both")
			u("stack", "17", "1111", "both")
			u("nodes", "16384", "1111", "debug")
			u("nodes", "16383", "0010", "debug")
			if tier == "thorough" {
				for _, n := range []string{"32765", "32766", "32767", "32768", "32769"} {
					u("nodes", n, "0000", "")
					u("nodes", n, "1111", "")
					u("nodes", n, "0000", "event")
				}
				u("nodes", "32767", "0010", "debug")
				u("nodes", "20000", "1111", "event")
			} else {
				u("nodes", "32767", "0000", "")
				u("nodes", "32768", "0000", "")
			}
			return units
		},
		Reach: []string{"accepted", "rejected"},
		Bounds: func(tier string) map[string]interface{} {
			return map[string]interface{}{"operand_counts": "2,126,127,128,129,200 flat; (63,64) (64,64) (64,65) (127,1) (127,2) (126,1) (2,125) (2,126) through flattening with ReduceNesting on and off",
				"node_counts": "16382..16385 with ReportEvent/Debug, 32767/32768 plain (32765..32769 in all modes thorough)", "stack_depths": "6,7,8,9,14,15,16,17,40 with and without fast operators and events; 127,128,129,256 (thorough 126..130, 255..257, 600) with an if / and / or at the deepest point; operators with 127..300 operands in every position of an if; event-mode programs of 16383 / 16384 / 18061 / 25000 nodes built from two-leaf operators with FastEvaluation on and off; depths 7,8,9,16,17 again with a variable named fi and with the string literals \"fi\" / \"if\" as leaves",
				"data": "the variable's value is an arbitrary int64 (solver variable); the reference is the same wrapping fold"}
		},
		Rule:        "one unit per (kind, size, options, event mode); sizes are structural and enumerated at and around each limit; the narrowing monitor checks every Convert to a narrower integer and every int8/int16 +,-,* executed in the package",
		Assumptions: []string{"sizes not adjacent to a limit are outside the bound"},
		MaxSteps:    400_000_000,
		WallBudget:  shapeBudget,
	})
}

func init() {
	registerProp(&PropSpec{
		ID:     "C19",
		Solver: "cvc5-int",
		Units: func(tier string, seed int64, sh *Shared) []Unit {
			var units []Unit
			skels := []string{"d", "d.d", "d.d.d", "dddd.d.d", "ddddd.d", "d.dddd.dddd", "d.d.d.d", "d.d.d.d.d", "d.ddddd.d"}
			pairs := [][2]string{}
			for _, s := range skels {
				pairs = append(pairs, [2]string{s, s})
			}
			pairs = append(pairs, [2]string{"d", "d.d.d"}, [2]string{"d.d", "d.d.d.d"}, [2]string{"dddd.d.d", "d.dddd.dddd"}, [2]string{"d.d.d.d.d", "d.d.d"}, [2]string{"ddddd.d", "dddd.d.d"})
			if tier == "thorough" {
				pairs = append(pairs, [2]string{"dddd.dddd.dddd.dddd", "dddd.dddd.dddd.dddd"}, [2]string{"dddd.dddd.dddd", "dddd.dddd.dddd"}, [2]string{"ddddd.ddddd.d", "dddd.dddd.dddd.dddd"},
					[2]string{"d.dddd.ddddd.d", "dddd.d.d.ddddd"}, [2]string{"dd.dd.dd.dd.dd", "dd.dd.dd.dd"})
			}
			for _, p := range pairs {
				for _, n := range []string{"", "1", "2", "3", "4"} {
					if tier != "thorough" && (n == "1" || n == "2") && len(p[0]) > 5 {
						continue
					}
					units = append(units, Unit{"VerifC19Version", []string{"version", p[0], p[1], n}})
				}
			}
			// components of many digits (values that do not fit 64 bits must be rejected, not wrapped)
			// (most digits concrete: every symbolic digit forks the interpreted ParseInt at its overflow tests)
			z17 := strings.Repeat("0", 17)
			for _, p := range [][2]string{{"d" + z17 + "d", "d"}, {"d.d" + z17 + "0d", "d.d"}, {"9223372036854775808", "d"}, {"922337203685477580d", "d"}, {"d.18446744073709551617.d", "d.d.d"}, {"d.d.184467440737095516dd", "d.d.d"},
				{"d.d.d.1" + z17 + "d", "d.d.d.d"}, {"0000000000000000dddd", "dddd"}} {
				for _, n := range []string{"", "4"} {
					units = append(units, Unit{"VerifC19Version", []string{"version", p[0], p[1], n}})
				}
			}
			for _, op := range []string{"t_version", "to_version"} {
				units = append(units, Unit{"VerifC19Version", []string{op, "d.dddd.d", "dddd.d.d", ""}}, Unit{"VerifC19Version", []string{op, "d.d.d.d", "d.d.d.d", "4"}})
			}
			for _, op := range []string{"version", "t_version", "to_version"} {
				for _, f := range []string{"nondigit:d.d.d:0", "nondigit:d.d.d:2", "nondigit:dd.dd.d:1", "nondigit:d.d.d.d:6", "nondigit:ddd:1",
					"empty:1..2", "empty:.1.2", "empty:1.2.", "empty:", "empty:1.2..4", "length", "types"} {
					units = append(units, Unit{"VerifC19Reject", []string{op, f}})
				}
			}
			for _, op := range []string{"date", "datetime", "to_date", "to_datetime", "t_date", "t_time", "td_date", "td_time"} {
				units = append(units, Unit{"VerifC19Reject", []string{op, "datetypes"}})
			}
			for _, r := range c19Dates {
				units = append(units, Unit{"VerifC19Date", []string{r[0], r[1], r[2], r[3]}})
			}
			for _, r := range [][3]string{
				{"date", "", "2006-01-02"}, {"to_date", "", "2006-01-02"}, {"td_date", "", "2006-01-02"},
				{"datetime", "", "2006-01-02 15:04:05"}, {"to_datetime", "", "2006-01-02 15:04:05"}, {"td_time", "", "2006-01-02 15:04:05"},
				{"date", "02/01/2006", "02/01/2006"}, {"datetime", "15:04 02.01.2006", "15:04 02.01.2006"}, {"to_date", "Jan 2 2006", "Jan 2 2006"},
				{"t_date", "02/01/2006", "02/01/2006"}, {"t_time", "2006-01-02T15:04:05", "2006-01-02T15:04:05"},
			} {
				units = append(units, Unit{"VerifC19DateSym", []string{r[0], r[1], r[2]}})
			}
			return units
		},
		Reach: []string{"ordered", "less", "equal", "too-large", "nondigit", "empty", "bad-length", "good-length", "types", "date", "date-sym"},
		Bounds: func(tier string) map[string]interface{} {
			return map[string]interface{}{"versions": "pairs of texts with 1..5 components of 1, 4 or 5 arbitrary decimal digits each (solver variables; 9999/10000/99999 reachable), valid length default and 1..4; components of 19 and 20 digits (first / last digits arbitrary, around 2^63 and 2^64, leading zeros) (must be rejected unless the value is ≤ 9999, i.e. all leading digits are zero)",
				"dates": "layout selection for EVERY text (time.Parse uninterpreted) for all 8 operators with default and supplied layouts; 132 concrete texts against Unix seconds computed independently (Python calendar.timegm) across epoch, leap-year, century, 2038 and year-1/9999 boundaries"}
		},
		Rule: "version units: one per (operator, skeleton pair, valid length); the order query is decided by cvc5 with --solve-bv-as-int=sum (bit-blasting res*10000+v times out); date units: concrete table + symbolic layout-selection units",
		Assumptions: []string{"chronological monotonicity of time.Parse∘Unix is a property of the Go standard library and is not decided here (time.Parse is an uninterpreted function in the symbolic date units; a concrete table is run natively-equivalent through the executor)",
			"signed components (+1, -1 are accepted by ParseInt) are outside the stated domain and not asserted either way"},
		TimeoutMs:  60000,
		WallBudget: shapeBudget,
	})
}

func init() {
	registerProp(&PropSpec{
		ID: "C06",
		Units: func(tier string, seed int64, sh *Shared) []Unit {
			return withoutAliases(func() []Unit {
				var units []Unit
				// (a) rune level
				maxL := 2
				if tier == "thorough" {
					maxL = 3
				}
				for l := 0; l <= maxL; l++ {
					for _, nt := range []string{"prefix", "infix"} {
						units = append(units, Unit{"VerifC06Text", []string{itoa2(l), nt, "", ""}})
					}
				}
				ctxs := [][3]string{{"prefix", "(", ")"}, {"prefix", "(+ 1 ", ")"}, {"prefix", "(= a \"x", "\")"}, {"prefix", ";; c", "\n(+ 1 1)"}, {"prefix", ";;;;", "\n(+ 1 1)"}, {"prefix", ";;;; optimize", "\n(+ 1 1)"}, {"prefix", ";;;; optimize:", ", reordering\n(+ 1 1)"}, {"prefix", ";;;;reordering:tru", "\n(+ 1 1)"}, {"prefix", "(in a (1 ", "))"},
					{"infix", "a + ", ""}, {"infix", "", " + 1"}, {"infix", "if(a, ", ", 1)"}, {"infix", "in(a, [1 ", "])"}, {"infix", "!", ""}, {"infix", "(a ", " 1)"}}
				for _, c := range ctxs {
					for l := 1; l <= maxL && l <= 2; l++ {
						units = append(units, Unit{"VerifC06Text", []string{itoa2(l), c[0], c[1], c[2]}})
					}
				}
				units = append(units, Unit{"VerifC06Text", []string{"1", "prefix", "(+ 1 ", ")", "undef"}}, Unit{"VerifC06Text", []string{"1", "infix", "a + ", "", "undef"}})
				// (b) token level
				maxN := 3
				if tier == "thorough" {
					maxN = 4
				}
				for n := 0; n <= maxN; n++ {
					units = append(units, Unit{"VerifC06Tokens", []string{itoa2(n), "infix", ""}})
					units = append(units, Unit{"VerifC06Tokens", []string{itoa2(n + 1), "prefix", "0"}})
				}
				if tier == "thorough" {
					// one more token in prefix notation for the common openings
					for _, first := range []string{"0,7", "0,8", "0,11", "0,10", "0,5", "0,0"} {
						units = append(units, Unit{"VerifC06Tokens", []string{"6", "prefix", first}})
					}
				}
				// (c)+(d) run time with any-typed bindings
				c := tierConfigs(tier)
				for _, src := range shapeFamily(1, leavesStandard, false, "BI") {
					units = append(units, Unit{"VerifC06Run", []string{src, "", c, "*"}})
					units = append(units, Unit{"VerifC06Run", []string{src, "event", "0000,1111", "*"}})
					units = append(units, Unit{"VerifC06Run", []string{src, "both", "0000,1111", "*"}})
				}
				maxM, _ := shapeTierParams(tier)
				for _, src := range shapeFamily(maxM, leavesVarsOnly, false, "BI") {
					for k, v := range varsOf(src) {
						if k < 2 || tier == "thorough" {
							units = append(units, Unit{"VerifC06Run", []string{src, "", "0000,1111", v}})
						}
					}
				}
				for _, src := range []string{"(= i0 i1)", "(!= i0 i1)", "(eq i0 i1 i2)", "(in i0 i1)", "(overlap i0 i1)", "(between i0 i1 i2)", "(xor b0 b1)", "(t_version i0)", "(date i0 i1)", "(version i0 i1)", "(% i0 i1)", "(if b0 i0 i1)"} {
					units = append(units, Unit{"VerifC06Run", []string{src, "", "all", "*"}})
				}
				// every built-in operator on operands of any type and any small count
				var opNames []string
				for _, o := range observeConcrete(sh, "VerifOpNames", nil) {
					if strings.HasPrefix(o, "ops=") {
						opNames = strings.Fields(strings.TrimPrefix(o, "ops="))
					}
				}
				for _, name := range opNames {
					for n := 0; n <= 2; n++ {
						units = append(units, Unit{"VerifC06Op", []string{name, itoa2(n)}})
					}
					if tier == "thorough" {
						units = append(units, Unit{"VerifC06Op", []string{name, "3"}})
					}
				}
				return units
			})
		},
		Reach:      []string{"compiled", "accepted", "parsed", "tree", "ran"},
		ReachEntry: map[string]string{"parsed": "VerifC06Tokens", "tree": "VerifC06Tokens"},
		Bounds: func(tier string) map[string]interface{} {
			l, n := 2, 3
			if tier == "thorough" {
				l, n = 3, 4
			}
			return map[string]interface{}{"text": "every text of ≤" + itoa(l) + " characters, and 1-2 arbitrary characters inside 11 prefix/infix contexts; characters: all of Latin-1 (solver variable) plus U+1680, U+2028, U+3000, '中', '٣', U+FFFD, U+10FFFF, NUL; both notations",
				"tokens":   "every vector of ≤" + itoa(n) + " tokens (infix) / ≤" + itoa(n+1) + " tokens starting with '(' (prefix) over a 19-token vocabulary, driven through parseAstTree→optimize→check→buildExpr→Eval/TryEval/Dump (nondeterministic choice, exhaustive; the parser is control code and needs no solver reasoning)",
				"run_time": "shapes ≤1 internal node with EVERY variable bound to any of {int64, bool, string, []int64, []string, nil, empty list}; larger shapes with one such variable; 12 operator applications with all operands any-typed; events on/off"}
		},
		Rule:        "panic / hang edges (index and slice bounds, nil dereference, failed type assertion, uncomparable ==, division by zero, makeslice, send on a full or nil channel) are obligations on every symbolic path; each sat answer is replayed through the public API",
		Assumptions: []string{"texts longer than the stated bounds and characters outside the alphabet are outside the claim", "fetchers and operators are well-behaved (they return a value or an error)"},
		MaxPaths:    3_000_000,
		WallBudget:  shapeBudget,
	})
}

func init() {
	registerProp(&PropSpec{
		ID: "C14",
		Units: func(tier string, seed int64, sh *Shared) []Unit {
			var units []Unit
			sep := "\x1f"
			exprs := []struct {
				toks  []string
				infix bool
			}{
				{[]string{"(", "and", "(", ">", "a", "1", ")", "b", "(", "=", "s", "\"x (y;z\"", ")", ")"}, false},
				{[]string{"(", "if", "b", "(", "+", "a", "K", ")", "(", "in", "a", "(", "1", "2", ")", ")", ")"}, false},
				{[]string{"(", "overlap", "(", "\"a b\"", "\"c\"", ")", "(", ")", ")"}, false},
				{[]string{"a", "+", "K", "*", "(", "a", "-", "1", ")", "==", "if", "(", "b", ",", "1", ",", "2", ")"}, true},
				{[]string{"in", "(", "a", ",", "[", "1", "2", "3", "]", ")", "&&", "!", "b"}, true},
				{[]string{"(", "+", "1"}, false},
				{[]string{"(", "nosuch", "a", ")"}, false},
			}
			delim := func(t string) bool { return t == "(" || t == ")" || t == "[" || t == "]" || t == "," }
			for ei, ex := range exprs {
				joined := strings.Join(ex.toks, sep)
				nt := "prefix"
				if ex.infix {
					nt = "infix"
				}
				for g := 0; g+1 < len(ex.toks); g++ {
					if tier != "thorough" && ei > 2 && g%2 == 1 {
						continue
					}
					units = append(units, Unit{"VerifC14Layout", []string{joined, itoa2(g), "space1", nt}})
					if g%3 == 0 || tier == "thorough" {
						units = append(units, Unit{"VerifC14Layout", []string{joined, itoa2(g), "space2", nt}})
						units = append(units, Unit{"VerifC14Layout", []string{joined, itoa2(g), "comment", nt}})
					}
					units = append(units, Unit{"VerifC14Layout", []string{joined, itoa2(g), "comment0", nt}})
					if g%3 != 1 || tier == "thorough" {
						units = append(units, Unit{"VerifC14Layout", []string{joined, itoa2(g), "comment1", nt}})
					}
					if g%3 == 1 || tier == "thorough" {
						units = append(units, Unit{"VerifC14Layout", []string{joined, itoa2(g), "comment-twice", nt}})
					}
					units = append(units, Unit{"VerifC14Layout", []string{joined, itoa2(g), "directive", nt}})
					// no whitespace at all is a re-layout of the same tokens only next to a delimiter,
					// and not in front of a string literal (a quote starts a literal only at a token start)
					if (delim(ex.toks[g]) || delim(ex.toks[g+1])) && !strings.HasPrefix(ex.toks[g+1], "\"") {
						units = append(units, Unit{"VerifC14Layout", []string{joined, itoa2(g), "none", nt}})
					}
				}
				units = append(units, Unit{"VerifC14Layout", []string{joined, "0", "lead", nt}}, Unit{"VerifC14Layout", []string{joined, "0", "trail", nt}})
				units = append(units, Unit{"VerifC14Layout", []string{joined, "0", "comment-lead", nt}}, Unit{"VerifC14Layout", []string{joined, "0", "comment-trail", nt}})
			}
			// formatter
			maxL := 3
			for l := 0; l <= maxL; l++ {
				units = append(units, Unit{"VerifC14Format", []string{itoa2(l), "", ""}})
			}
			for _, c := range [][2]string{{"(= s \"a", "\")"}, {"(= s \"", "\")"}, {"(and a ;c", "\n b)"}, {"a", "b"}, {"(in a (1 ", "))"}, {"(a", ")"}, {"\"x\"", "\"y\""}, {"a,", " b"}, {"[1 ", "]"}, {";;;; optimize:false\n", "(+ 1 1)"}, {"(and\n  a\n  ", "\n  b)"},
				{"(in s (\"a", "\" \"x  (y ;z\"))"}, {"(= \"", "\" \"a  )b\")"}, {"(and a ;c", "\n (= s \"x  (y\"))"}} {
				lmax := 2
				if tier == "thorough" {
					lmax = 3
				}
				for l := 1; l <= lmax; l++ {
					units = append(units, Unit{"VerifC14Format", []string{itoa2(l), c[0], c[1]}})
				}
			}
			for _, e := range [][2]string{
				{"(and (> a 1) b (= s \"x (y;z\"))", "prefix"}, {"(= s \"a  b\")", "prefix"}, {"(= s \"a(b\")", "prefix"}, {"(= s \"a;b\")", "prefix"}, {"(= s \"a\tb\")", "prefix"},
				{"(if b ;; comment (with parens)\n (+ a K) ;; another\n (in a (1 2)))", "prefix"}, {";;;; optimize: false\n(and b (> a 1))", "prefix"}, {"(overlap (\"a b\" \"c)\") ())", "prefix"},
				{"a + K * (a - 1) == if(b, 1, 2)", "infix"}, {"in(s, [\"a b\" \"c]\"]) && !b", "infix"}, {"(+ 1", "prefix"}, {"(and a\n\n\n   b)   ", "prefix"}, {"  (  +  1  1  )  ", "prefix"},
			} {
				units = append(units, Unit{"VerifC14FormatExpr", []string{e[0], e[1]}})
			}
			return units
		},
		Reach: []string{"layout", "layout-compiles", "formatted", "lexes", "format-expr"},
		Bounds: func(tier string) map[string]interface{} {
			l := 3
			return map[string]interface{}{"relayout": "7 token sequences (prefix and infix, with string literals containing spaces, parentheses and ';', and two that do not compile); every gap (quick: every gap of the first three, every other gap of the rest) filled with 1-2 arbitrary Unicode spaces of the alphabet, a comment with 2 arbitrary characters, a ;;;; directive (must be inert), or nothing where a delimiter allows it; leading and trailing spaces",
				"formatter": "every text of ≤" + itoa(l) + " characters and 1-2 (thorough: 3) arbitrary characters inside 11 contexts (inside and around string literals, comments, lists, directives), against a 50-line reference lexer; 13 whole expressions; formatter applied twice",
				"alphabet":  "all of Latin-1 (solver variable) + U+1680, U+2028, U+3000, '中', '٣', U+FFFD, U+10FFFF, NUL"}
		},
		Rule:        "layout units: one per (token sequence, gap, filler kind); formatter units: one per (length, context); a state is one symbolic path (character classes are found by the solver)",
		Assumptions: []string{"comments are compared modulo trailing blanks (the formatter trims the end of the text)", "removing the space in front of a string literal is not a re-layout of the same tokens (a quote starts a literal only at the start of a token)"},
		WallBudget:  shapeBudget,
	})
}

// c15Templates enumerates expression templates with exactly m operator nodes.
func c15Templates(m int, memo map[int][]string) []string {
	if r, ok := memo[m]; ok {
		return r
	}
	var out []string
	if m == 0 {
		out = []string{"_", "1", "K"}
		memo[m] = out
		return out
	}
	comb := func(op string, arity int) {
		for _, sp := range splits(m-1, arity) {
			var rec func(i int, acc []string)
			rec = func(i int, acc []string) {
				if i == arity {
					out = append(out, "("+op+" "+strings.Join(acc, " ")+")")
					return
				}
				kids := c15Templates(sp[i], memo)
				if sp[i] == 0 {
					kids = []string{"_"} // keep the leaf alphabet small below operators
				}
				for _, k := range kids {
					rec(i+1, append(append([]string{}, acc...), k))
				}
			}
			rec(0, nil)
		}
	}
	comb("?", 2)
	comb("!", 1)
	comb("add", 2)
	comb("mod", 3)
	comb("if", 3)
	// membership with a list leaf
	for _, k := range c15Templates(m-1, memo) {
		if m-1 == 0 {
			k = "_"
		}
		out = append(out, "(in "+k+" (1 2 3))")
		if m-1 == 0 {
			break
		}
	}
	memo[m] = out
	return out
}

func init() {
	registerProp(&PropSpec{
		ID: "C15",
		Units: func(tier string, seed int64, sh *Shared) []Unit {
			maxM := 2
			if tier == "thorough" {
				maxM = 3
			}
			memo := map[int][]string{}
			var units []Unit
			for m := 1; m <= maxM; m++ {
				for _, t := range c15Templates(m, memo) {
					if m == 3 && strings.Count(t, "?") > 2 {
						// three free binary operators = 4096 operator combinations per template: thorough only keeps
						// those for the pure binary shapes below
						continue
					}
					units = append(units, Unit{"VerifC15", []string{t}})
				}
			}
			for _, t := range []string{"(? (? (? _ _) _) _)", "(? _ (? _ (? _ _)))", "(? (? _ _) (? _ _))", "(? (? _ (? _ _)) _)", "(? _ (? (? _ _) _))",
				"(? (! (? _ _)) _)", "(! (? (? _ _) _))", "(? (add _ (? _ _)) (! _))", "(if (? _ _) (? _ _) (? _ _))", "(mod (? _ _) (? _ _) _)"} {
				units = append(units, Unit{"VerifC15", []string{t}})
			}
			// identifiers of every documented form (underscore first, dots inside, non-ASCII letters, digits inside)
			for _, pre := range []string{"_h", "_", "a.b", "ü", "T_1x", "in_", "nota"} {
				for _, t := range []string{"(! _)", "(? (! _) _)", "(? _ (! _))", "(! (? _ _))", "(if (! _) _ _)", "(add _ _)", "(? (in _ (1 2)) (! _))"} {
					units = append(units, Unit{"VerifC15", []string{t, pre}})
				}
			}
			// list literals of every kind: empty, one element, strings (with a space inside), on either side of overlap
			for _, t := range []string{"(in _ ())", "(in _ (5))", "(in \"a\" (\"a\" \"b c\"))", "(in \"a\" ())", "(overlap (1 2) ())", "(overlap () ())", "(overlap () (1 2))",
				"(overlap (\"a\") (\"b\" \"a\"))", "(if (in _ ()) _ _)", "(? (in _ ()) (overlap (1) (1 2)))", "(! (in _ ()))", "(add (if (in _ (1)) _ _) _)", "(? (in _ (1 2)) (! (in _ ())))"} {
				units = append(units, Unit{"VerifC15", []string{t}})
			}
			return units
		},
		Reach: []string{"infix"},
		Bounds: func(tier string) map[string]interface{} {
			m := 2
			if tier == "thorough" {
				m = 3
			}
			return map[string]interface{}{"templates": "all expression trees with ≤" + itoa(m) + " operator nodes over: binary infix operator, unary !, f(a,b) / f(a,b,c) calls, if(c,a,b), in(x,[1 2 3]), variable/literal/constant leaves; plus 10 shapes with 3 binary operators in every association; plus 13 shapes with empty, one-element and string list literals under in/overlap",
				"operators": "every binary slot ranges over all 16 infix spellings (nondeterministic choice: 16^k combinations per template)", "renderings": "minimal parentheses from the documented precedence table, full parentheses, one redundant pair around every sub-expression",
				"bindings": "arbitrary int64 / bool per variable (solver variables), typed from the leaf's context"}
		},
		Rule:        "one unit per template; a state is one symbolic path (operator choice × evaluation path); the parser is control code, so the operator quantifier is discharged by forking and the solver decides the evaluation equivalence",
		Assumptions: []string{"nested unary ! is rendered with parentheses (!!a is rejected by the lexer); x in [..] has no infix spelling (in(x, [..]) is used)"},
		WallBudget:  shapeBudget,
	})
}

func init() {
	registerProp(&PropSpec{
		ID: "C20",
		Units: func(tier string, seed int64, sh *Shared) []Unit {
			var units []Unit
			allFlags := []string{"", "v", "c", "t", "vc", "vt", "ct", "vct"}
			typs := []string{"bool", "num"}
			// level 0 first (cheap): every option subset, then every subset of the variable classes supplied
			// (the variables are an input of their own: every class may be missing, and values the generator
			// has no use for may be present)
			for _, typ := range typs {
				for _, f := range allFlags {
					units = append(units, Unit{"VerifC20", []string{"0", typ, f}})
				}
				for _, f := range []string{"v", "vt", "vct"} {
					for _, vs := range []string{"", "n", "b", "d", "nb", "nd", "bd", "nbds"} {
						units = append(units, Unit{"VerifC20", []string{"0", typ, f, vs}})
					}
					// the variable map receives its values after the option was built
					units = append(units, Unit{"VerifC20", []string{"0", typ, f, "nbdL"}})
				}
			}
			for _, typ := range typs {
				l1 := []string{"", "t", "vct"}
				if tier == "thorough" {
					l1 = allFlags
				}
				for _, f := range l1 {
					units = append(units, Unit{"VerifC20", []string{"1", typ, f}})
				}
				if typ == "bool" || tier == "thorough" {
					// a variable map holding something the generator has no use for, at the level where a
					// misfiled variable would become an operand
					units = append(units, Unit{"VerifC20", []string{"1", typ, "vt", "s"}})
				}
				if tier == "thorough" {
					for _, fv := range [][2]string{{"v", ""}, {"v", "n"}, {"v", "b"}, {"vt", ""}, {"vt", "n"}, {"vt", "b"}, {"vt", "d"}, {"vt", "nbds"}} {
						units = append(units, Unit{"VerifC20", []string{"1", typ, fv[0], fv[1]}})
					}
				}
			}
			return units
		},
		Reach: []string{"generated", "bare-atom", "definite", "dne"},
		Bounds: func(tier string) map[string]interface{} {
			return map[string]interface{}{"levels": "0 and 1, exhaustively over all values (*rand.Rand).Intn can return (nondeterministic stub); level 1 = one operator/if over leaf children",
				"children":     "variables carry arbitrary int64 / bool values (solver variables) or DNE, numeric literals are arbitrary values in their range, so at level 1 the operands range over every possible child result; the code computing Res from the children's Res is the same at every level ≥ 1",
				"late_binding": "the GenVariables option built from a map that is filled in afterwards (level 0)", "variables": "2 numbers (one passed as Go int), 2 booleans, 2 DNE variables; every class present or missing (8 subsets at level 0; thorough: 8 option/subset pairs at level 1 as well), and a string variable the generator has no use for",
				"options": "both result types × {variables, conditions, TryEval/DNE} quick: none and all at level 1 (every subset at level 0); thorough: every subset at level 1"}
		},
		Rule: "one unit per (level, result type, option set); a state is one symbolic path through the generator, Compile and Eval/TryEval plus the reference evaluator",
		Assumptions: []string{"levels ≥ 2 are not run: their sub-expressions are arbitrary children of the level-1 step; that a sub-expression can be replaced by a variable bound to its value without changing the result is compositionality of evaluation (C01/C05)",
			"(*rand.Rand).Intn(n) returns an arbitrary value in [0,n) (over-approximates every seed); numeric literal texts produced by strconv.Itoa are abstracted as constants of the same value"},
		WallBudget: shapeBudget,
	})
}

// opsOf lists the distinct operator names of a prefix source in order of first occurrence.
func opsOf(src string) []string {
	var out []string
	seen := map[string]bool{}
	for i := 0; i < len(src); i++ {
		if src[i] != '(' {
			continue
		}
		j := i + 1
		for j < len(src) && src[j] != ' ' && src[j] != ')' && src[j] != '(' {
			j++
		}
		name := src[i+1 : j]
		if name == "" || seen[name] || (name[0] >= '0' && name[0] <= '9') || name[0] == '"' || name[0] == '-' {
			continue
		}
		seen[name] = true
		out = append(out, name)
	}
	return out
}

// replaceAtom replaces every occurrence of the atom old (delimited by spaces or parentheses) by new.
func replaceAtom(src, old, new string) string {
	var sb strings.Builder
	for i := 0; i < len(src); {
		if strings.HasPrefix(src[i:], old) && (i == 0 || src[i-1] == ' ' || src[i-1] == '(') &&
			(i+len(old) == len(src) || src[i+len(old)] == ' ' || src[i+len(old)] == ')') {
			sb.WriteString(new)
			i += len(old)
			continue
		}
		sb.WriteByte(src[i])
		i++
	}
	return sb.String()
}
