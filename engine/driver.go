package main

// Check driver: work units → symbolic paths on a worker pool → native replay of
// every counterexample → known-findings matching → evidence.

import (
	"encoding/json"
	"fmt"
	"math/rand"
	"os"
	"path/filepath"
	"sort"
	"strconv"
	"strings"
	"sync"
	"time"

	"golang.org/x/tools/go/ssa"
)

type Unit struct {
	Entry string
	Args  []string
}

func (u Unit) String() string { return u.Entry + "(" + strings.Join(u.Args, " | ") + ")" }

type PropSpec struct {
	ID          string
	Solver      string // default back end
	Units       func(tier string, seed int64, sh *Shared) []Unit
	MaxSteps    int64
	MaxPaths    int               // per unit
	TimeoutMs   int               // per solver query
	Reach       []string          // vacuity labels that must be reached somewhere
	ReachEntry  map[string]string // vacuity label → the only entry that can reach it (skipped when that entry's harness file was dropped)
	Bounds      func(tier string) map[string]interface{}
	Assumptions []string
	Rule        string
	Race        bool                            // replay natively under -race
	Lazy        bool                            // fork on symbolic branches without feasibility queries
	Eager       map[string]bool                 // entries explored with feasibility queries although Lazy is set
	WallBudget  func(tier string) time.Duration // stop starting new units after this (reported as reduced bound)
}

var propSpecs = map[string]*PropSpec{}

func registerProp(p *PropSpec) { propSpecs[p.ID] = p }

type unitResult struct {
	unit       Unit
	paths      int
	okPaths    int
	assumed    int
	undecided  int
	undecWhy   map[string]int
	forks      int
	steps      int64
	asserts    int
	failures   []Failure
	reached    map[string]bool
	witnesses  []map[string]string // sampled witness models of passing paths
	witReached [][]string
	sample     string
	weak       int
	truncated  bool
}

type KnownFindings struct {
	Findings []struct {
		Property    string `json:"property"`
		Fingerprint string `json:"fingerprint"`
		What        string `json:"what"`
		Witness     string `json:"witness,omitempty"`
	} `json:"findings"`
	Fixed []string `json:"fixed"`
}

func loadKnownFindings() KnownFindings {
	var kf KnownFindings
	data, err := os.ReadFile("/verif/known_findings.json")
	if err == nil {
		json.Unmarshal(data, &kf)
	}
	return kf
}

// fingerprint identifies a failure independently of the concrete model.
func fingerprint(prop string, f Failure) string {
	switch f.Kind {
	case "panic", "hang":
		site := ""
		for _, s := range f.Stack {
			if strings.Contains(s, targetPath) && !strings.Contains(s, "Verif") && !strings.Contains(s, ".vf") && !strings.Contains(s, ".ref") {
				site = s
				break
			}
		}
		site = strings.ReplaceAll(site, targetPath+".", "")
		site = strings.ReplaceAll(site, targetPath, "")
		msg := f.Detail
		// strip volatile numbers from runtime messages
		msg = stripDigits(msg)
		return f.Kind + ":" + site + ":" + msg
	}
	label := f.Label
	if i := strings.Index(label, ": "); i > 0 {
		label = label[:i] // the part after ": " quotes the concrete input
	}
	return "assert:" + label
}

func stripDigits(s string) string {
	var sb strings.Builder
	prevDigit := false
	for _, r := range s {
		if r >= '0' && r <= '9' {
			if !prevDigit {
				sb.WriteByte('N')
			}
			prevDigit = true
			continue
		}
		prevDigit = false
		sb.WriteRune(r)
	}
	out := sb.String()
	if len(out) > 100 {
		out = out[:100]
	}
	return out
}

// runUnits explores all paths of the given units on the worker pool with one solver back end.
func runUnits(sh *Shared, spec *PropSpec, units []Unit, solverKind string, timeoutMs int, maxSteps int64, maxPaths int, deadline time.Time) (results []*unitResult, solverStats []SolverStats, funcSteps map[string]int64, stubs map[string]int, skippedUnits int) {
	results = make([]*unitResult, len(units))
	var wg sync.WaitGroup
	var mu sync.Mutex
	cond := sync.NewCond(&mu)
	solverStats = make([]SolverStats, *flagWorkers)
	funcSteps = map[string]int64{}
	stubs = map[string]int{}
	skippedUnits = 0
	// Work items are single paths (unit, decision prefix): the paths of a unit are
	// independent re-executions, so a unit with many paths is spread over all workers.
	type workItem struct {
		unit   int
		prefix []int32
	}
	var stack []workItem
	nextUnit := 0
	inflight := 0
	var firstFailure time.Time
	cutAfterCex = 0
	for w := 0; w < *flagWorkers; w++ {
		wg.Add(1)
		go func(w int) {
			defer wg.Done()
			solver := NewSolver(solverKind, timeoutMs)
			defer solver.Close()
			if w == 0 && *flagSolverLog != "" {
				f, _ := os.Create(*flagSolverLog)
				defer f.Close()
				solver.log = f
			}
			m := NewMachine(sh, solver)
			m.lazy = spec.Lazy
			for {
				mu.Lock()
				var it workItem
				got := false
				if !firstFailure.IsZero() && time.Since(firstFailure) > cexGrace && (len(stack) > 0 || nextUnit < len(units)) {
					// a counterexample candidate exists: what is still queued after the grace period is not
					// explored (a change that breaks the property can also make the remaining paths very slow)
					cutAfterCex += len(stack) + len(units) - nextUnit
					stack = nil
					nextUnit = len(units)
				}
				for !got {
					if n := len(stack); n > 0 {
						it = stack[n-1]
						stack = stack[:n-1]
						got = true
						break
					}
					if nextUnit < len(units) {
						if !deadline.IsZero() && time.Now().After(deadline) {
							skippedUnits += len(units) - nextUnit
							nextUnit = len(units)
							continue
						}
						i := nextUnit
						nextUnit++
						results[i] = &unitResult{unit: units[i], undecWhy: map[string]int{}, reached: map[string]bool{}}
						it = workItem{unit: i}
						got = true
						break
					}
					if inflight == 0 {
						break
					}
					cond.Wait()
				}
				if !got {
					cond.Broadcast()
					mu.Unlock()
					break
				}
				r := results[it.unit]
				if r.paths >= maxPaths {
					r.undecided++
					r.undecWhy["path budget exhausted"]++
					r.truncated = true
					mu.Unlock()
					continue
				}
				pathNo := r.paths
				r.paths++
				inflight++
				mu.Unlock()

				m.wantWitness = pathNo == 0 || pathNo%7 == 3
				u := units[it.unit]
				m.lazy = spec.Lazy && !spec.Eager[u.Entry]
				res := m.RunPath(sh.entry(u.Entry), []value{strSlice(u.Args)}, it.prefix, maxSteps)

				mu.Lock()
				inflight--
				for _, p := range res.Pending {
					stack = append(stack, workItem{unit: it.unit, prefix: p})
				}
				recordPath(r, m, res)
				if firstFailure.IsZero() {
					for _, f := range res.Failures {
						// candidates of a listed known finding do not start the grace period
						if !knownFingerprints[fingerprint(spec.ID, f)] {
							firstFailure = time.Now()
							break
						}
					}
				}
				cond.Broadcast()
				mu.Unlock()
			}
			mu.Lock()
			solverStats[w] = solver.Stats
			for f, n := range m.funcSteps {
				funcSteps[f.String()] += n
			}
			for k, n := range m.stubsUsed {
				stubs[k] += n
			}
			mu.Unlock()
		}(w)
	}
	wg.Wait()

	return
}

// cexGrace: how long exploration continues after the first counterexample candidate of a run.
const cexGrace = 150 * time.Second

// cutAfterCex: work items dropped by the last runUnits call because of cexGrace.
var cutAfterCex int

// knownFingerprints: fingerprints of the listed known findings of the property being checked.
var knownFingerprints = map[string]bool{}

func runCheck(prop, tier string) int {
	start := time.Now()
	spec := propSpecs[prop]
	if spec == nil {
		fmt.Printf("INCONCLUSIVE unknown property %s\n", prop)
		return 2
	}
	seed := int64(0)
	if s := os.Getenv("VERIF_SEED"); s != "" {
		seed, _ = strconv.ParseInt(s, 10, 64)
	}
	sh, err := LoadProgram(*flagRepo, *flagHarness)
	if err != nil {
		// The harness does not build against the current tree (or the tree itself
		// does not build): nothing can be decided.
		fmt.Printf("INCONCLUSIVE property=%s cannot load /repo with harness: %v\n", prop, err)
		writeInconclusiveEvidence(prop, tier, seed, start, "load: "+err.Error())
		return 2
	}
	loadS := time.Since(start).Seconds()
	native := NewNativeRunner(*flagRepo, *flagHarness)
	native.files = sh.harnessFiles
	defer native.Close()
	for _, dg := range sh.degraded {
		fmt.Printf("DEGRADED property=%s harness file %s\n", prop, dg)
	}
	var nativeRace *NativeRunner // built lazily: only candidates that do not reproduce sequentially are re-run under -race
	defer func() {
		if nativeRace != nil {
			nativeRace.Close()
		}
	}()

	// encoder conformance preamble
	confN, confBad, confErr := runConformanceWith(sh, native, conformLimit(tier))
	if confErr != nil || len(confBad) > 0 {
		fmt.Printf("INCONCLUSIVE property=%s encoder conformance failed: err=%v mismatches=%d\n", prop, confErr, len(confBad))
		for i, b := range confBad {
			if i < 5 {
				fmt.Println("  MISMATCH", clip(b, 600))
			}
		}
		writeInconclusiveEvidence(prop, tier, seed, start, fmt.Sprintf("conformance: err=%v mismatches=%d", confErr, len(confBad)))
		return 2
	}

	units := spec.Units(tier, seed, sh)
	if tier == "thorough" && spec.WallBudget != nil {
		units = orderForBudget(units, spec.Units("quick", seed, sh))
	}
	if *flagOnly != "" {
		var keep []Unit
		for _, u := range units {
			if strings.Contains(u.Entry+"|"+strings.Join(u.Args, "|"), *flagOnly) {
				keep = append(keep, u)
			}
		}
		units = keep
	}
	unitsDropped := 0
	droppedEntries := map[string]bool{}
	{
		var keep []Unit
		missing := map[string]int{}
		for _, u := range units {
			if sh.entry(u.Entry) == nil {
				missing[u.Entry]++
				continue
			}
			keep = append(keep, u)
		}
		for e, n := range missing {
			if len(sh.degraded) == 0 || len(keep) == 0 {
				fmt.Printf("INCONCLUSIVE property=%s harness entry %s missing\n", prop, e)
				writeInconclusiveEvidence(prop, tier, seed, start, "harness entry "+e+" missing: "+strings.Join(sh.degraded, "; "))
				return 2
			}
			fmt.Printf("DEGRADED property=%s %d units of entry %s are not run (its harness file does not type-check against the current tree)\n", prop, n, e)
			unitsDropped += n
			droppedEntries[e] = true
		}
		units = keep
	}
	solverKind := spec.Solver
	if solverKind == "" {
		solverKind = "z3"
	}
	if *flagSolver != "" {
		solverKind = *flagSolver
	}
	timeoutMs := spec.TimeoutMs
	if timeoutMs == 0 {
		timeoutMs = 5000
		if tier == "thorough" {
			timeoutMs = 30000
		}
	}
	maxSteps := spec.MaxSteps
	if maxSteps == 0 {
		maxSteps = 5_000_000
		if tier == "thorough" {
			maxSteps = 50_000_000
		}
	}
	maxPaths := spec.MaxPaths
	if maxPaths == 0 {
		maxPaths = 20000
		if tier == "thorough" {
			maxPaths = 200000
		}
	}
	var deadline time.Time
	if spec.WallBudget != nil {
		deadline = start.Add(spec.WallBudget(tier))
		if *flagBudget > 0 {
			deadline = start.Add(time.Duration(*flagBudget) * time.Minute)
		}
	}

	knownFingerprints = map[string]bool{}
	for _, k := range loadKnownFindings().Findings {
		if k.Property == prop {
			knownFingerprints[k.Fingerprint] = true
		}
	}
	results, solverStats, funcSteps, stubs, skippedUnits := runUnits(sh, spec, units, solverKind, timeoutMs, maxSteps, maxPaths, deadline)
	cutItems := cutAfterCex

	// thorough: a sample of units is re-run on a second solver; the verdicts must agree
	secondSolver, secondUnits, secondDisagree := "", 0, []string{}
	if tier == "thorough" && len(units) > 0 {
		secondSolver = "cvc5"
		if strings.HasPrefix(solverKind, "cvc5") {
			secondSolver = "z3-new"
		}
		step := len(units)/40 + 1
		var sample []Unit
		var sampleIdx []int
		for i := 0; i < len(units); i += step {
			if results[i] != nil && !results[i].truncated && results[i].paths <= 60 {
				sample = append(sample, units[i])
				sampleIdx = append(sampleIdx, i)
			}
		}
		// the comparison is a self-test of the solver layer, bounded in time: units not started within
		// 10 minutes are simply not compared
		res2, _, _, _, _ := runUnits(sh, spec, sample, secondSolver, timeoutMs, maxSteps, maxPaths, time.Now().Add(10*time.Minute))
		for k, r2 := range res2 {
			r1 := results[sampleIdx[k]]
			if r2 == nil || r1 == nil {
				continue
			}
			secondUnits++
			if r2.undecided > 0 || r1.undecided > 0 {
				continue // an unknown on either side decides nothing
			}
			if r1.okPaths != r2.okPaths || len(r1.failures) != len(r2.failures) || r1.assumed != r2.assumed {
				secondDisagree = append(secondDisagree, fmt.Sprintf("%s: %s ok/failed/assumed=%d/%d/%d vs %s %d/%d/%d", clip(r1.unit.String(), 120), solverKind, r1.okPaths, len(r1.failures), r1.assumed, secondSolver, r2.okPaths, len(r2.failures), r2.assumed))
			}
		}
	}

	// aggregate
	var agg struct {
		paths, ok, assumed, undecided, forks, asserts, weak int
		steps                                               int64
	}
	undecWhy := map[string]int{}
	reached := map[string]bool{}
	type cand struct {
		u  Unit
		f  Failure
		fp string
	}
	var cands []cand
	var witnessFiles []ReplayFile
	var witnessReached [][]string
	var samples []interface{}
	exploredUnits := 0
	for _, r := range results {
		if r == nil {
			continue
		}
		exploredUnits++
		agg.paths += r.paths
		agg.ok += r.okPaths
		agg.assumed += r.assumed
		agg.undecided += r.undecided
		agg.forks += r.forks
		agg.asserts += r.asserts
		agg.steps += r.steps
		agg.weak += r.weak
		for k, n := range r.undecWhy {
			undecWhy[k] += n
		}
		for k := range r.reached {
			reached[k] = true
		}
		for _, f := range r.failures {
			cands = append(cands, cand{r.unit, f, fingerprint(prop, f)})
		}
		for i, w := range r.witnesses {
			if len(witnessFiles) < witnessCap(tier) && true {
				witnessFiles = append(witnessFiles, ReplayFile{Property: prop, Entry: r.unit.Entry, Args: r.unit.Args, Model: w, Kind: "witness"})
				witnessReached = append(witnessReached, r.witReached[i])
			}
		}
		if len(samples) < 6 && r.sample != "" {
			samples = append(samples, map[string]interface{}{"unit": r.unit.String(), "paths": r.paths, "example_path": r.sample})
		}
	}

	// witness replay: passing paths must also pass natively, reaching the same labels
	validated := 0
	var witnessMismatch []string
	if len(witnessFiles) > 0 {
		nres, err := native.Run(witnessFiles)
		if err != nil {
			fmt.Printf("INCONCLUSIVE property=%s native build failed: %v\n", prop, err)
			writeInconclusiveEvidence(prop, tier, seed, start, "native build: "+err.Error())
			return 2
		}
		for i, nr := range nres {
			if nr.Status == "ok" && sameStrings(nr.Reached, witnessReached[i]) {
				validated++
			} else {
				witnessMismatch = append(witnessMismatch, fmt.Sprintf("%s(%s) model=%v native=%s reached(native)=%v reached(sym)=%v",
					witnessFiles[i].Entry, strings.Join(witnessFiles[i].Args, "|"), witnessFiles[i].Model, clip(nr.Status, 200), nr.Reached, witnessReached[i]))
			}
		}
	}

	// counterexample replay, grouped by fingerprint
	byFP := map[string][]cand{}
	var fpOrder []string
	for _, c := range cands {
		if _, ok := byFP[c.fp]; !ok {
			fpOrder = append(fpOrder, c.fp)
		}
		byFP[c.fp] = append(byFP[c.fp], c)
	}
	sort.Strings(fpOrder)
	kf := loadKnownFindings()
	violations := 0
	spurious := 0
	knownSeen := map[string]bool{}
	os.MkdirAll("/verif/replay", 0o755)
	var vioLines []string
	for _, fp := range fpOrder {
		group := byFP[fp]
		n := len(group)
		if n > 4 {
			n = 4
		}
		var files []ReplayFile
		for _, c := range group[:n] {
			files = append(files, ReplayFile{Property: prop, Entry: c.u.Entry, Args: c.u.Args, Model: c.f.Model,
				Label: c.f.Label, Kind: c.f.Kind, Detail: c.f.Detail, Pos: c.f.Pos, Finger: fp, Stack: c.f.Stack})
		}
		nres, err := native.Run(files)
		if err != nil {
			fmt.Printf("INCONCLUSIVE property=%s native build failed: %v\n", prop, err)
			writeInconclusiveEvidence(prop, tier, seed, start, "native build: "+err.Error())
			return 2
		}
		confirmed := -1
		for i, nr := range nres {
			if reproduces(files[i], nr) {
				confirmed = i
				break
			}
		}
		if confirmed < 0 && spec.Race {
			// a write into shared memory that leaves no lasting trace (scratch state, write-and-restore):
			// the same calls from several goroutines under the race detector
			if nativeRace == nil {
				nativeRace = NewNativeRunner(*flagRepo, *flagHarness)
				nativeRace.files = sh.harnessFiles
				nativeRace.race = true
			}
			rres, rerr := nativeRace.Run(files[:1])
			if rerr == nil && len(rres) == 1 && reproduces(files[0], rres[0]) {
				confirmed = 0
				nres = rres
			}
		}
		if confirmed < 0 {
			spurious += len(group)
			if *flagVerbose {
				fmt.Printf("spurious (not reproduced natively): %s ×%d e.g. %s args=%v model=%v native=%s\n", fp, len(group), files[0].Entry, files[0].Args, files[0].Model, clip(nres[0].Status, 300))
			}
			continue
		}
		known := false
		for _, k := range kf.Findings {
			if k.Property == prop && k.Fingerprint == fp {
				known = true
				if !knownSeen[fp] {
					fmt.Printf("KNOWN-FINDING: property=%s %s\n", prop, k.What)
				}
				knownSeen[fp] = true
			}
		}
		if known {
			continue
		}
		violations++
		rp := filepath.Join("/verif/replay", fmt.Sprintf("%s-%d.json", prop, violations))
		data, _ := json.MarshalIndent(files[confirmed], "", " ")
		os.WriteFile(rp, data, 0o644)
		vioLines = append(vioLines, fmt.Sprintf("VIOLATION property=%s replay=%s", prop, rp))
		fmt.Printf("violation detail: fingerprint=%q label=%s kind=%s unit=%s(%s) model=%v detail=%s (%d paths)\n", fp, files[confirmed].Label, files[confirmed].Kind,
			files[confirmed].Entry, strings.Join(files[confirmed].Args, " | "), files[confirmed].Model, clip(files[confirmed].Detail, 200), len(group))
	}

	// vacuity
	var missingReach []string
	for _, l := range spec.Reach {
		if !reached[l] && !droppedEntries[spec.ReachEntry[l]] {
			missingReach = append(missingReach, l)
		}
	}

	var st SolverStats
	for _, s := range solverStats {
		st.Queries += s.Queries
		st.SatN += s.SatN
		st.UnsatN += s.UnsatN
		st.UnknownN += s.UnknownN
		st.Errors += s.Errors
		st.Time += s.Time
		st.Restarts += s.Restarts
	}

	// functions encoded (top by executed instructions, target package first)
	type fs struct {
		name string
		n    int64
	}
	var fl []fs
	for k, n := range funcSteps {
		if strings.Contains(k, targetPath) && !strings.Contains(k, ".Verif") && !strings.Contains(k, ".vf") && !strings.Contains(k, ".ref") {
			fl = append(fl, fs{strings.ReplaceAll(k, targetPath+".", ""), n})
		}
	}
	sort.Slice(fl, func(i, j int) bool { return fl[i].n > fl[j].n })
	var funcsEncoded []string
	for i, f := range fl {
		if i >= 60 {
			break
		}
		funcsEncoded = append(funcsEncoded, fmt.Sprintf("%s:%d", f.name, f.n))
	}
	var stubList []string
	for k := range stubs {
		stubList = append(stubList, k)
	}
	sort.Strings(stubList)

	bounds := map[string]interface{}{}
	if spec.Bounds != nil {
		bounds = spec.Bounds(tier)
	}
	bounds["units_planned"] = len(units)
	bounds["units_explored"] = exploredUnits
	bounds["units_skipped_wall_budget"] = skippedUnits
	if cutItems > 0 {
		bounds["work_items_not_explored_after_first_counterexample"] = cutItems
	}
	if len(sh.degraded) > 0 {
		bounds["degraded_harness_files"] = sh.degraded
		bounds["units_not_run_missing_entry"] = unitsDropped
	}
	bounds["max_steps_per_path"] = maxSteps
	bounds["max_paths_per_unit"] = maxPaths
	bounds["solver_timeout_ms"] = timeoutMs

	inconclusive := false
	var inconclusiveWhy []string
	if agg.paths == 0 {
		inconclusive = true
		inconclusiveWhy = append(inconclusiveWhy, "no path explored")
	}
	if len(missingReach) > 0 {
		inconclusive = true
		inconclusiveWhy = append(inconclusiveWhy, fmt.Sprintf("vacuity: labels never reached: %v", missingReach))
	}
	for why, n := range undecWhy {
		if strings.HasPrefix(why, "engine error") {
			inconclusive = true
			inconclusiveWhy = append(inconclusiveWhy, fmt.Sprintf("executor failure on %d paths: %s", n, clip(why, 200)))
		}
		// code the encoder has no model for: the property is not decided on those paths, which is not
		// the same as a budget running out (reported as a reduced bound)
		if strings.HasPrefix(why, "unsupported") {
			inconclusive = true
			inconclusiveWhy = append(inconclusiveWhy, fmt.Sprintf("the encoder cannot execute the code on %d paths: %s", n, clip(why, 200)))
		}
	}
	if cutItems > 0 && violations == 0 {
		inconclusive = true
		inconclusiveWhy = append(inconclusiveWhy, fmt.Sprintf("exploration was cut short after a counterexample candidate that did not reproduce natively (%d work items not explored)", cutItems))
	}
	if len(secondDisagree) > 0 {
		inconclusive = true
		inconclusiveWhy = append(inconclusiveWhy, fmt.Sprintf("solver disagreement on %d units, e.g. %s", len(secondDisagree), secondDisagree[0]))
	}
	if len(witnessMismatch) > 0 {
		inconclusive = true
		inconclusiveWhy = append(inconclusiveWhy, fmt.Sprintf("witness replay mismatches: %d, e.g. %s", len(witnessMismatch), clip(witnessMismatch[0], 500)))
	}

	if len(samples) == 0 {
		samples = append(samples, "no unit completed")
	}
	cov := map[string]interface{}{
		"states":                        maxInt(agg.paths, 0),
		"transitions":                   agg.forks + agg.paths,
		"traces_validated_against_impl": validated,
		"samples":                       samples,
		"paths_ok":                      agg.ok,
		"paths_assumed_away":            agg.assumed,
		"paths_undecided":               agg.undecided,
		"paths_undecided_reasons":       undecWhy,
		"paths_weak":                    agg.weak,
		"assertions_checked":            agg.asserts,
		"ssa_instructions_interpreted":  agg.steps,
		"functions_encoded":             funcsEncoded,
		"bounds":                        bounds,
		"queries":                       map[string]interface{}{"total": st.Queries, "sat": st.SatN, "unsat": st.UnsatN, "unknown": st.UnknownN, "errors": st.Errors},
		"solver":                        solverKind,
		"solver_s":                      st.Time.Seconds(),
		"stubs":                         stubList,
		"spurious_cex":                  spurious,
		"candidate_cex":                 len(cands),
		"known_findings_seen":           len(knownSeen),
		"reach_labels":                  sortedKeys(reached),
		"conformance_cases":             confN,
		"load_s":                        loadS,
		"rule":                          spec.Rule,
		"exhaustive":                    false,
	}
	if secondSolver != "" {
		cov["second_solver"] = secondSolver
		cov["second_solver_units_compared"] = secondUnits
		cov["second_solver_disagreements"] = len(secondDisagree)
	}
	if len(inconclusiveWhy) > 0 {
		cov["inconclusive"] = inconclusiveWhy
	}
	ev := map[string]interface{}{
		"property_id": prop,
		"tier":        tier,
		"seed":        seed,
		"level":       "model_checking",
		"coverage":    cov,
		"assumptions": append([]string{
			"go/ssa lowering of /repo's current source is faithful",
			"the symbolic executor models SSA semantics faithfully (checked per run by the conformance corpus and witness replay)",
			"z3/cvc5 answers are correct; unknown/timeouts are counted as undecided, never as success",
			"standard library functions called natively or stubbed behave as documented",
		}, spec.Assumptions...),
		"wall_s":     time.Since(start).Seconds(),
		"violations": violations,
	}
	os.MkdirAll(*flagOut, 0o755)
	data, _ := json.MarshalIndent(ev, "", " ")
	os.WriteFile(filepath.Join(*flagOut, prop+".json"), data, 0o644)

	fmt.Printf("property=%s tier=%s units=%d/%d paths=%d ok=%d assumed-away=%d undecided=%d forks=%d asserts=%d queries=%d (unknown %d) solver=%.1fs witness-validated=%d/%d candidates=%d spurious=%d violations=%d wall=%.1fs\n",
		prop, tier, exploredUnits, len(units), agg.paths, agg.ok, agg.assumed, agg.undecided, agg.forks, agg.asserts, st.Queries, st.UnknownN, st.Time.Seconds(), validated, len(witnessFiles), len(cands), spurious, violations, time.Since(start).Seconds())
	if agg.undecided > 0 {
		fmt.Printf("undecided reasons: %v\n", undecWhy)
	}
	if *flagVerbose || agg.undecided > 0 {
		var rs []*unitResult
		for _, r := range results {
			if r != nil {
				rs = append(rs, r)
			}
		}
		sort.Slice(rs, func(i, j int) bool {
			if rs[i].undecided != rs[j].undecided {
				return rs[i].undecided > rs[j].undecided
			}
			return rs[i].paths > rs[j].paths
		})
		for i, r := range rs {
			if i >= 5 {
				break
			}
			fmt.Printf("  heavy unit: %d paths (%d undecided) %s\n", r.paths, r.undecided, clip(r.unit.String(), 200))
		}
	}
	for i, l := range vioLines {
		if i >= 25 {
			fmt.Printf("(%d further violations not listed)\n", len(vioLines)-i)
			break
		}
		fmt.Println(l)
	}
	if violations > 0 {
		return 1
	}
	if inconclusive {
		fmt.Printf("INCONCLUSIVE property=%s %v\n", prop, inconclusiveWhy)
		return 2
	}
	return 0
}

func maxInt(a, b int) int {
	if a > b {
		return a
	}
	return b
}

func witnessCap(tier string) int {
	if tier == "thorough" {
		return 600
	}
	return 150
}

func sameStrings(a, b []string) bool {
	if len(a) != len(b) {
		return false
	}
	for i := range a {
		if a[i] != b[i] {
			return false
		}
	}
	return true
}

// reproduces decides whether the native run shows the failure the executor
// predicted.
func reproduces(f ReplayFile, nr NativeResult) bool {
	switch f.Kind {
	case "assert":
		// any failed assertion (or panic) of the same harness on the same input is a confirmed
		// failure of the real code; the executor's predicted label need not be the first to trip
		return strings.HasPrefix(nr.Status, "fail label=") || strings.HasPrefix(nr.Status, "panic msg=") || strings.HasPrefix(nr.Status, "race msg=")
	case "panic":
		return strings.HasPrefix(nr.Status, "panic msg=") || strings.HasPrefix(nr.Status, "crash")
	case "hang":
		return strings.HasPrefix(nr.Status, "crash") || strings.HasPrefix(nr.Status, "panic msg=")
	}
	return false
}

// recordPath folds one path result into its unit's result (caller holds the lock).
func recordPath(r *unitResult, m *Machine, res PathResult) {
	r.forks += res.Forks
	r.steps += res.Steps
	r.asserts += m.asserts
	for k := range res.Reached {
		r.reached[k] = true
	}
	if res.Weak {
		r.weak++
	}
	switch res.Status {
	case "ok":
		r.okPaths++
		if res.Undecided > 0 {
			r.undecided++
			r.undecWhy["solver unknown on an assertion"]++
		}
		if res.Witness != nil && len(r.witnesses) < 3 {
			w := res.Witness
			for _, c := range m.choices {
				w[c[0]] = c[1]
			}
			r.witnesses = append(r.witnesses, w)
			r.witReached = append(r.witReached, sortedKeys(res.Reached))
		}
		if r.sample == "" {
			r.sample = fmt.Sprintf("decisions=%v pc=%s", res.Taken, clip(m.pcSummary(), 400))
		}
	case "assumed-away":
		r.assumed++
	case "failed":
		for _, f := range res.Failures {
			for _, c := range m.choices {
				if f.Model != nil {
					f.Model[c[0]] = c[1]
				}
			}
			r.failures = append(r.failures, f)
		}
	default:
		r.undecided++
		why := res.Reason
		if i := strings.Index(why, " at "); i > 0 && strings.HasPrefix(why, "unsupported") {
			why = why[:i]
		}
		r.undecWhy[clip(why, 160)]++
	}
}

func writeInconclusiveEvidence(prop, tier string, seed int64, start time.Time, why string) {
	ev := map[string]interface{}{
		"property_id": prop, "tier": tier, "seed": seed, "level": "model_checking",
		"coverage": map[string]interface{}{
			"evaluations": 0, "distinct_nontrivial": 0,
			"explanation": "check could not run: " + why,
			"samples":     []string{"none"},
		},
		"wall_s": time.Since(start).Seconds(), "violations": 0,
	}
	os.MkdirAll(*flagOut, 0o755)
	data, _ := json.MarshalIndent(ev, "", " ")
	os.WriteFile(filepath.Join(*flagOut, prop+".json"), data, 0o644)
}

func replayCommand(prop, path string) int {
	data, err := os.ReadFile(path)
	if err != nil {
		fmt.Println("cannot read", path, err)
		return 2
	}
	var rf ReplayFile
	if err := json.Unmarshal(data, &rf); err != nil {
		fmt.Println("bad replay file:", err)
		return 2
	}
	native := NewNativeRunner(*flagRepo, *flagHarness)
	if sh, lerr := LoadProgram(*flagRepo, *flagHarness); lerr == nil {
		native.files = sh.harnessFiles // the harness files that type-check against the current tree
	}
	if sp := propSpecs[rf.Property]; sp != nil {
		native.race = sp.Race
	}
	defer native.Close()
	res, err := native.Run([]ReplayFile{rf})
	if err != nil {
		fmt.Println("INCONCLUSIVE native build failed:", err)
		return 2
	}
	fmt.Printf("replay %s: entry=%s args=%v model=%v\nnative result: %s\n", path, rf.Entry, rf.Args, rf.Model, res[0].Status)
	for _, o := range res[0].Obs {
		fmt.Println("  obs:", clip(o, 400))
	}
	if reproduces(rf, res[0]) {
		fmt.Printf("VIOLATION property=%s replay=%s\n", rf.Property, path)
		return 1
	}
	fmt.Println("not reproduced on the current tree")
	return 0
}

var _ = ssa.NewProgram

// orderForBudget orders the units of a wall-budgeted thorough run: first the
// units whose subject (entry + first argument) the quick tier also explores, in
// their given order, then all others in a fixed pseudo-random order. If the
// budget ends the run early, what was explored beyond the quick tier is then an
// even sample of the deeper family rather than its first few members; the
// units not reached are reported as a reduced bound.
func orderForBudget(units, quick []Unit) []Unit {
	key := func(u Unit) string {
		k := u.Entry
		if len(u.Args) > 0 {
			k += "\x00" + u.Args[0]
		}
		return k
	}
	inQuick := map[string]bool{}
	for _, u := range quick {
		inQuick[key(u)] = true
	}
	var first, rest []Unit
	for _, u := range units {
		if inQuick[key(u)] {
			first = append(first, u)
		} else {
			rest = append(rest, u)
		}
	}
	rng := rand.New(rand.NewSource(20260926))
	rng.Shuffle(len(rest), func(i, j int) { rest[i], rest[j] = rest[j], rest[i] })
	return append(first, rest...)
}
