package main

// Externals: harness intrinsics (vf*), models of standard-library leaves that
// cannot be interpreted (unsafe, assembly, reflection), and native
// call-through for pure library functions when all arguments are concrete.

import (
	"fmt"
	"go/token"
	"go/types"
	"math"
	"reflect"
	"sort"
	"strconv"
	"strings"
	"time"
	"unicode"
	"unicode/utf8"
	"unsafe"

	"golang.org/x/tools/go/ssa"
)

type externalFn func(m *Machine, fr *frame, args []value) value

type notHandledT struct{}

// notHandled tells callSSA to interpret the function body instead.
var notHandled = notHandledT{}

var externals = map[string]externalFn{}

const targetPath = "github.com/onheap/eval"

func init() {
	vf := func(name string, f externalFn) { externals[targetPath+"."+name] = f }

	vf("vfInt64", func(m *Machine, fr *frame, a []value) value { return m.newInput(a[0].(string), "int64", BV(64)) })
	vf("vfInt16", func(m *Machine, fr *frame, a []value) value { return m.newInput(a[0].(string), "int16", BV(16)) })
	vf("vfInt", func(m *Machine, fr *frame, a []value) value { return m.newInput(a[0].(string), "int", BV(64)) })
	vf("vfByte", func(m *Machine, fr *frame, a []value) value { return m.newInput(a[0].(string), "byte", BV(8)) })
	vf("vfRune", func(m *Machine, fr *frame, a []value) value { return m.newInput(a[0].(string), "rune", BV(32)) })
	vf("vfBool", func(m *Machine, fr *frame, a []value) value { return m.newInput(a[0].(string), "bool", BoolSort) })
	vf("vfCost", func(m *Machine, fr *frame, a []value) value {
		v := m.newInput(a[0].(string), "cost", IntSort)
		if t, ok := v.(*Term); ok {
			// integer-valued doubles with |c| ≤ 2^40: sums of a few dozen stay far below 2^53
			lim := m.ts.IntConst64(1 << 40)
			m.assumeTerm(m.ts.ICmp(OpILe, m.ts.IBin(OpISub, m.ts.IntConst64(0), lim), t))
			m.assumeTerm(m.ts.ICmp(OpILe, t, lim))
		}
		return v
	})
	vf("vfChoice", func(m *Machine, fr *frame, a []value) value {
		name := a[0].(string)
		n := int(asInt64(a[1]))
		if m.replayVals != nil {
			var k int
			fmt.Sscanf(m.replayVals[name], "%d", &k)
			return k
		}
		k := m.choice(n)
		m.choices = append(m.choices, [2]string{name, strconv.Itoa(k)})
		return k
	})
	vf("vfAssume", func(m *Machine, fr *frame, a []value) value { m.assume(a[0]); return nil })
	vf("vfAssert", func(m *Machine, fr *frame, a []value) value {
		m.asserts++
		m.assertProp(a[0], a[1].(string))
		return nil
	})
	vf("vfReach", func(m *Machine, fr *frame, a []value) value { m.reached[a[0].(string)] = true; return nil })
	vf("vfSymbolic", func(m *Machine, fr *frame, a []value) value { return true })
	vf("vfObserve", func(m *Machine, fr *frame, a []value) value {
		m.observed = append(m.observed, fmt.Sprintf("%s=%v", a[0].(string), m.nativeArg(fr, a[1])))
		return nil
	})
	vf("vfFreeze", func(m *Machine, fr *frame, a []value) value {
		if m.frozen == nil {
			m.frozen = make(map[*value]bool)
			m.frozenMaps = make(map[*mapV]bool)
		}
		seen := make(map[interface{}]bool)
		m.freezeWalk(a[0], seen)
		// everything reachable from the package's own variables is shared between all calls as well
		// (a package-level scratch buffer is shared mutable state); harness variables are exempt.
		// Computed once per path: package variables are not reassigned.
		if m.globalFrozen == nil {
			saveF, saveM := m.frozen, m.frozenMaps
			m.frozen, m.frozenMaps = make(map[*value]bool), make(map[*mapV]bool)
			gseen := make(map[interface{}]bool)
			for g, cell := range m.globals {
				if strings.HasPrefix(g.Name(), "vf") || strings.HasPrefix(g.Name(), "init$") || strings.HasPrefix(g.Name(), "errVf") {
					continue
				}
				m.freezeWalk(cell, gseen)
			}
			m.globalFrozen, m.globalFrozenMaps = m.frozen, m.frozenMaps
			m.frozen, m.frozenMaps = saveF, saveM
		}
		return nil
	})
	vf("vfFreezeStop", func(m *Machine, fr *frame, a []value) value {
		// objects the freeze walk must not enter (user-supplied state behind operators)
		if m.freezeStop == nil {
			m.freezeStop = make(map[interface{}]bool)
		}
		if it, ok := a[0].(iface); ok {
			if p, ok := it.v.(*value); ok && p != nil {
				m.freezeStop[p] = true
			}
		}
		return nil
	})
	vf("vfUnfreeze", func(m *Machine, fr *frame, a []value) value {
		m.frozen, m.frozenMaps = nil, nil
		return nil
	})
	vf("vfFrozenWrites", func(m *Machine, fr *frame, a []value) value { return len(m.frozenWrites) })
	vf("vfGlobalWrites", func(m *Machine, fr *frame, a []value) value { return len(m.globalWrites) })
	vf("vfMapOrder", func(m *Machine, fr *frame, a []value) value { m.mapOrder = a[0].(bool); return nil })
	vf("vfNarrow", func(m *Machine, fr *frame, a []value) value { m.narrow = a[0].(bool); return nil })
	vf("vfNarrowViolations", func(m *Machine, fr *frame, a []value) value { return len(m.narrowViolations) })
	vf("vfPlaceholder", func(m *Machine, fr *frame, a []value) value {
		tok := a[0].(string)
		if v, ok := m.placeholders[tok]; ok {
			return tuple{v, true}
		}
		return tuple{iface{}, false}
	})
	vf("vfOpaqueDate", func(m *Machine, fr *frame, a []value) value {
		// an opaque, arbitrary text: time.Parse on it is an uninterpreted function
		return opaqueMarker + a[0].(string) + "\x00"
	})
	vf("vfParsedUnix", func(m *Machine, fr *frame, a []value) value {
		unix, ok := m.timeParseUF(a[1].(string), a[0].(string))
		return tuple{unix, ok}
	})
	vf("vfConcurrently", func(m *Machine, fr *frame, a []value) value { return nil })
	vf("vfRand", func(m *Machine, fr *frame, a []value) value {
		// a *rand.Rand whose Intn is the nondeterministic stub
		p := new(value)
		*p = zero(mustDeref(fr.fn.Signature.Results().At(0).Type()))
		return p
	})
	vf("vfSharedMutable", func(m *Machine, fr *frame, a []value) value {
		return m.sharedMutable(a[0], a[1])
	})

	// strings.Builder (its methods go through unsafe)
	externals["(*strings.Builder).WriteString"] = func(m *Machine, fr *frame, a []value) value {
		b := builderBuf(m, a[0])
		*b = append((*b).([]value), strBytes(a[1])...)
		return tuple{strLen(a[1]), iface{}}
	}
	externals["(*strings.Builder).WriteByte"] = func(m *Machine, fr *frame, a []value) value {
		b := builderBuf(m, a[0])
		*b = append((*b).([]value), a[1])
		return iface{}
	}
	externals["(*strings.Builder).WriteRune"] = func(m *Machine, fr *frame, a []value) value {
		b := builderBuf(m, a[0])
		var enc []value
		switch r := a[1].(type) {
		case int32:
			enc = encodeRune(r)
		case *Term:
			enc = m.encodeRuneSym(r)
		}
		*b = append((*b).([]value), enc...)
		return tuple{len(enc), iface{}}
	}
	externals["(*strings.Builder).Write"] = func(m *Machine, fr *frame, a []value) value {
		b := builderBuf(m, a[0])
		*b = append((*b).([]value), a[1].([]value)...)
		return tuple{len(a[1].([]value)), iface{}}
	}
	externals["(*strings.Builder).String"] = func(m *Machine, fr *frame, a []value) value {
		b := builderBuf(m, a[0])
		return mkStr(append([]value{}, (*b).([]value)...))
	}
	externals["(*strings.Builder).Len"] = func(m *Machine, fr *frame, a []value) value {
		return len((*builderBuf(m, a[0])).([]value))
	}
	externals["(*strings.Builder).Grow"] = func(m *Machine, fr *frame, a []value) value {
		if n := m.concreteInt(a[1], "Grow"); n < 0 {
			m.tpanic("strings.Builder.Grow: negative count")
		}
		return nil
	}
	externals["(*strings.Builder).Reset"] = func(m *Machine, fr *frame, a []value) value {
		*builderBuf(m, a[0]) = []value(nil)
		return nil
	}

	// internal/bytealg leaves
	externals["internal/bytealg.IndexByteString"] = func(m *Machine, fr *frame, a []value) value {
		return m.indexByte(strBytes(a[0]), a[1])
	}
	externals["internal/bytealg.IndexByte"] = func(m *Machine, fr *frame, a []value) value {
		return m.indexByte(a[0].([]value), a[1])
	}
	externals["internal/bytealg.CountString"] = func(m *Machine, fr *frame, a []value) value {
		return m.countByte(strBytes(a[0]), a[1])
	}
	externals["internal/bytealg.Count"] = func(m *Machine, fr *frame, a []value) value {
		return m.countByte(a[0].([]value), a[1])
	}
	externals["internal/bytealg.IndexString"] = func(m *Machine, fr *frame, a []value) value {
		return m.indexString(strBytes(a[0]), strBytes(a[1]))
	}
	externals["internal/bytealg.MakeNoZero"] = func(m *Machine, fr *frame, a []value) value {
		n := m.concreteInt(a[0], "MakeNoZero")
		s := make([]value, n)
		for i := range s {
			s[i] = uint8(0)
		}
		return s
	}
	externals["internal/stringslite.Index"] = func(m *Machine, fr *frame, a []value) value {
		return m.indexString(strBytes(a[0]), strBytes(a[1]))
	}
	externals["internal/stringslite.Clone"] = func(m *Machine, fr *frame, a []value) value { return a[0] }
	externals["strings.Clone"] = externals["internal/stringslite.Clone"]
	externals["strings.Index"] = externals["internal/stringslite.Index"]
	externals["strings.IndexByte"] = externals["internal/bytealg.IndexByteString"]

	// pure library functions: native when concrete, interpreted otherwise
	pure := func(name string, f func(a []value) value) {
		externals[name] = func(m *Machine, fr *frame, a []value) value {
			for _, x := range a {
				if !concreteDeep(x) {
					return notHandled
				}
			}
			return f(a)
		}
	}
	pure("unicode.IsSpace", func(a []value) value { return unicode.IsSpace(a[0].(int32)) })
	pure("unicode.IsLetter", func(a []value) value { return unicode.IsLetter(a[0].(int32)) })
	pure("unicode.IsNumber", func(a []value) value { return unicode.IsNumber(a[0].(int32)) })
	pure("unicode.IsDigit", func(a []value) value { return unicode.IsDigit(a[0].(int32)) })
	pure("unicode.IsPrint", func(a []value) value { return unicode.IsPrint(a[0].(int32)) })
	pure("strconv.IsPrint", func(a []value) value { return strconv.IsPrint(a[0].(int32)) })
	pure("strings.ContainsRune", func(a []value) value { return strings.ContainsRune(a[0].(string), a[1].(int32)) })
	pure("strings.ContainsAny", func(a []value) value { return strings.ContainsAny(a[0].(string), a[1].(string)) })
	pure("strings.Contains", func(a []value) value { return strings.Contains(a[0].(string), a[1].(string)) })
	pure("strings.HasPrefix", func(a []value) value { return strings.HasPrefix(a[0].(string), a[1].(string)) })
	pure("strings.HasSuffix", func(a []value) value { return strings.HasSuffix(a[0].(string), a[1].(string)) })
	pure("strings.TrimPrefix", func(a []value) value { return strings.TrimPrefix(a[0].(string), a[1].(string)) })
	pure("strings.TrimSpace", func(a []value) value { return strings.TrimSpace(a[0].(string)) })
	pure("strings.Repeat", func(a []value) value { return strings.Repeat(a[0].(string), a[1].(int)) })
	pure("strings.Split", func(a []value) value { return strSlice(strings.Split(a[0].(string), a[1].(string))) })
	pure("strings.Join", func(a []value) value {
		var parts []string
		for _, p := range a[0].([]value) {
			parts = append(parts, p.(string))
		}
		return strings.Join(parts, a[1].(string))
	})
	pure("strconv.Quote", func(a []value) value { return strconv.Quote(a[0].(string)) })
	pure("strconv.Itoa", func(a []value) value { return strconv.Itoa(a[0].(int)) })
	pure("strconv.FormatInt", func(a []value) value { return strconv.FormatInt(a[0].(int64), a[1].(int)) })
	pure("unicode/utf8.RuneCountInString", func(a []value) value { return utf8.RuneCountInString(a[0].(string)) })
	pure("unicode/utf8.RuneLen", func(a []value) value { return utf8.RuneLen(a[0].(int32)) })
	pure("unicode/utf8.ValidString", func(a []value) value { return utf8.ValidString(a[0].(string)) })
	pure("unicode/utf8.DecodeRuneInString", func(a []value) value {
		r, n := utf8.DecodeRuneInString(a[0].(string))
		return tuple{r, n}
	})
	pure("unicode/utf8.DecodeLastRuneInString", func(a []value) value {
		r, n := utf8.DecodeLastRuneInString(a[0].(string))
		return tuple{r, n}
	})
	pure("math.Max", func(a []value) value { return math.Max(a[0].(float64), a[1].(float64)) })
	pure("math.Min", func(a []value) value { return math.Min(a[0].(float64), a[1].(float64)) })
	pure("math.IsNaN", func(a []value) value { return math.IsNaN(a[0].(float64)) })
	pure("math.IsInf", func(a []value) value { return math.IsInf(a[0].(float64), a[1].(int)) })
	pure("math.Float64bits", func(a []value) value { return math.Float64bits(a[0].(float64)) })
	pure("math.Float64frombits", func(a []value) value { return math.Float64frombits(a[0].(uint64)) })
	pure("math.Abs", func(a []value) value { return math.Abs(a[0].(float64)) })
	pure("math.NaN", func(a []value) value { return math.NaN() })
	pure("math.Inf", func(a []value) value { return math.Inf(a[0].(int)) })

	// decimal rendering of a symbolic integer: a placeholder token that the harness can
	// map back (digit count would otherwise force a fork per decimal length)
	for _, n := range []string{"strconv.FormatInt", "strconv.Itoa"} {
		conc := externals[n]
		externals[n] = func(m *Machine, fr *frame, a []value) value {
			if t, ok := a[0].(*Term); ok {
				m.stubsUsed["strconv.FormatInt/Itoa of a symbolic integer → opaque placeholder text"]++
				return m.placeholderFor(t)
			}
			return conc(m, fr, a)
		}
	}
	// symbolic variants where interpretation would hit unsupported leaves
	symMax := func(isMax bool) externalFn {
		return func(m *Machine, fr *frame, a []value) value {
			if !isSym(a[0]) && !isSym(a[1]) {
				if isMax {
					return math.Max(a[0].(float64), a[1].(float64))
				}
				return math.Min(a[0].(float64), a[1].(float64))
			}
			x, y := m.toTerm(a[0]), m.toTerm(a[1])
			var c *Term
			if isMax {
				c = m.ts.ICmp(OpILt, x, y)
			} else {
				c = m.ts.ICmp(OpILt, y, x)
			}
			return m.fromTerm(m.ts.Ite(c, y, x), types.Typ[types.Float64])
		}
	}
	externals["math.Max"] = symMax(true)
	externals["math.Min"] = symMax(false)

	externals["unicode/utf8.DecodeRuneInString"] = func(m *Machine, fr *frame, a []value) value {
		b := strBytes(a[0])
		if len(b) == 0 {
			return tuple{int32(utf8.RuneError), 0}
		}
		r, n := m.decodeRune(b)
		return tuple{r, n}
	}

	// formatting
	externals["fmt.Sprintf"] = func(m *Machine, fr *frame, a []value) value {
		return m.sprintf(a[0], a[1].([]value))
	}
	externals["fmt.Sprint"] = func(m *Machine, fr *frame, a []value) value {
		return m.sprint(a[0].([]value))
	}
	externals["fmt.Errorf"] = func(m *Machine, fr *frame, a []value) value {
		return m.errorf(a[0], a[1].([]value))
	}
	// fmt.Fprint* into a *strings.Builder
	fprint := func(kind string) externalFn {
		return func(m *Machine, fr *frame, a []value) value {
			w, ok := a[0].(iface)
			if !ok || w.t == nil || w.t.String() != "*strings.Builder" {
				panic(unsupported{"fmt.F" + kind + " into a writer other than *strings.Builder"})
			}
			var text value
			switch kind {
			case "printf":
				text = m.sprintf(a[1], a[2].([]value))
			case "print":
				text = m.sprint(a[1].([]value))
			default:
				text = m.binop(token.ADD, types.Typ[types.String], types.Typ[types.String], m.sprint(a[1].([]value)), "\n")
			}
			b := builderBuf(m, w.v)
			*b = append((*b).([]value), strBytes(text)...)
			return tuple{strLen(text), iface{}}
		}
	}
	externals["fmt.Fprintf"] = fprint("printf")
	externals["fmt.Fprint"] = fprint("print")
	externals["fmt.Fprintln"] = fprint("println")
	for _, n := range []string{"fmt.Println", "fmt.Printf", "fmt.Print"} {
		externals[n] = func(m *Machine, fr *frame, a []value) value { return tuple{0, iface{}} }
	}
	externals["errors.Is"] = func(m *Machine, fr *frame, a []value) value {
		return m.errorsIs(fr, a[0].(iface), a[1].(iface))
	}

	// sorting (the reflection-based swapper is replaced, the algorithm is the
	// real sort.stable_func / insertionSort_func code)
	externals["sort.SliceStable"] = func(m *Machine, fr *frame, a []value) value {
		return m.sortSlice(fr, a[0].(iface), a[1], true)
	}
	externals["sort.Slice"] = func(m *Machine, fr *frame, a []value) value {
		return m.sortSlice(fr, a[0].(iface), a[1], false)
	}

	// time
	externals["time.Parse"] = func(m *Machine, fr *frame, a []value) value {
		return m.timeParse(a[0], a[1])
	}
	// time.Time methods and time.Date on concrete values: native call-through
	for _, name := range []string{"Year", "Month", "Day", "Hour", "Minute", "Second", "Nanosecond", "Weekday", "YearDay", "UTC", "UnixNano", "UnixMilli",
		"Format", "Equal", "Before", "After", "Add", "Sub", "Truncate", "Round", "IsZero", "AddDate", "In", "Date", "Clock", "ISOWeek", "String"} {
		name := name
		externals["(time.Time)."+name] = func(m *Machine, fr *frame, a []value) value {
			return m.nativeTimeMethod(name, a)
		}
	}
	externals["time.Date"] = func(m *Machine, fr *frame, a []value) value {
		for _, x := range a[:7] {
			if isSym(x) {
				panic(unsupported{"time.Date on symbolic fields"})
			}
		}
		t := time.Date(int(asInt64(a[0])), time.Month(asInt64(a[1])), int(asInt64(a[2])), int(asInt64(a[3])), int(asInt64(a[4])), int(asInt64(a[5])), int(asInt64(a[6])), m.nativeLoc(a[7]))
		return m.fromNativeTime(t)
	}
	externals["time.Now"] = func(m *Machine, fr *frame, a []value) value {
		panic(unsupported{"time.Now"})
	}
	// math/rand
	externals["(*math/rand.Rand).Intn"] = func(m *Machine, fr *frame, a []value) value {
		return m.randIntn(a[1])
	}
	externals["os.Getenv"] = func(m *Machine, fr *frame, a []value) value { return "" }
}

func strSlice(ss []string) value {
	out := make([]value, len(ss))
	for i, s := range ss {
		out[i] = s
	}
	return out
}

func concreteDeep(v value) bool {
	switch x := v.(type) {
	case *Term, sstr:
		return false
	case []value:
		for _, e := range x {
			if !concreteDeep(e) {
				return false
			}
		}
	case iface:
		return concreteDeep(x.v)
	case structure:
		for _, e := range x {
			if !concreteDeep(e) {
				return false
			}
		}
	}
	return true
}

func builderBuf(m *Machine, recv value) *value {
	p := m.derefCheck(recv.(*value))
	st := (*p).(structure)
	return &st[1]
}

func (m *Machine) indexByte(b []value, c value) value {
	for i, x := range b {
		if m.truth(m.equals(types.Typ[types.Uint8], x, c)) {
			return i
		}
	}
	return -1
}

func (m *Machine) countByte(b []value, c value) value {
	n := 0
	for _, x := range b {
		if m.truth(m.equals(types.Typ[types.Uint8], x, c)) {
			n++
		}
	}
	return n
}

func (m *Machine) indexString(s, sub []value) value {
	n := len(sub)
	for i := 0; i+n <= len(s); i++ {
		if m.truth(m.strEq(mkStr(s[i:i+n]), mkStr(sub))) {
			return i
		}
	}
	return -1
}

// ---------------------------------------------------------------------------
// frozen-heap monitor

func (m *Machine) freezeWalk(v value, seen map[interface{}]bool) {
	switch x := v.(type) {
	case *value:
		if x == nil || seen[x] || m.freezeStop[x] {
			return
		}
		seen[x] = true
		m.frozen[x] = true
		m.freezeSlots(x, seen)
	case iface:
		m.freezeWalk(x.v, seen)
	case structure:
		for i := range x {
			m.frozen[&x[i]] = true
			m.freezeSlots(&x[i], seen)
		}
	case array:
		for i := range x {
			m.frozen[&x[i]] = true
			m.freezeSlots(&x[i], seen)
		}
	case []value:
		if x == nil {
			return
		}
		full := x[:cap(x)]
		if len(full) == 0 {
			return
		}
		if seen[&full[0]] {
			return
		}
		seen[&full[0]] = true
		for i := range full {
			m.frozen[&full[i]] = true
			m.freezeSlots(&full[i], seen)
		}
	case *mapV:
		if x == nil || seen[x] {
			return
		}
		seen[x] = true
		m.frozenMaps[x] = true
		for i := range x.ents {
			m.freezeWalk(x.ents[i].k, seen)
			m.freezeWalk(x.ents[i].v, seen)
		}
	case *closure:
		if x == nil || seen[x] {
			return
		}
		seen[x] = true
		for _, e := range x.Env {
			m.freezeWalk(e, seen)
		}
	case *chanV:
		// channel contents are communication, not shared program state
	}
}

// freezeSlots descends into the content of a slot (struct fields and array
// elements stored inline have their own addressable slots).
func (m *Machine) freezeSlots(p *value, seen map[interface{}]bool) {
	switch c := (*p).(type) {
	case structure:
		for i := range c {
			m.frozen[&c[i]] = true
			m.freezeSlots(&c[i], seen)
		}
	case array:
		for i := range c {
			m.frozen[&c[i]] = true
			m.freezeSlots(&c[i], seen)
		}
	default:
		m.freezeWalk(c, seen)
	}
}

// sharedMutable counts mutable containers (maps, slice backing arrays)
// reachable from both a and b, looking only at the containers themselves (not
// at user data stored inside them).
func (m *Machine) sharedMutable(a, b value) value {
	collect := func(root value) map[interface{}]bool {
		out := make(map[interface{}]bool)
		var walk func(v value, depth int)
		walk = func(v value, depth int) {
			switch x := v.(type) {
			case iface:
				walk(x.v, depth)
			case *value:
				if x == nil || out[x] {
					return
				}
				if depth > 0 {
					out[x] = true
				}
				walk(*x, depth+1)
			case structure:
				for _, f := range x {
					walk(f, depth+1)
				}
			case *mapV:
				if x != nil {
					out[x] = true
				}
			case []value:
				if cap(x) > 0 {
					out[&x[:cap(x)][0]] = true
				}
			}
		}
		walk(root, 0)
		return out
	}
	sa, sb := collect(a), collect(b)
	n := 0
	for k := range sa {
		if sb[k] {
			n++
		}
	}
	return n
}

// ---------------------------------------------------------------------------
// formatting

// nativeArg converts an interpreted interface value into a native Go value
// that fmt prints the same way (for the verbs used by the code under test).
func (m *Machine) nativeArg(fr *frame, v value) interface{} {
	itf, ok := v.(iface)
	if !ok {
		return m.nativeScalar(fr, nil, v)
	}
	if itf.t == nil {
		return nil
	}
	return m.nativeScalar(fr, itf.t, itf.v)
}

type symPlaceholder string

func (m *Machine) nativeScalar(fr *frame, t types.Type, v value) interface{} {
	if t != nil {
		// Error() / String() methods take precedence, as in fmt
		for _, name := range []string{"Error", "String"} {
			if meth := m.findMethod(t, name); meth != nil {
				sig := meth.Signature
				if sig.Params().Len() == 0 && sig.Results().Len() == 1 {
					if b, ok := sig.Results().At(0).Type().Underlying().(*types.Basic); ok && b.Kind() == types.String {
						if p, isPtr := v.(*value); isPtr && p == nil {
							return "<nil>"
						}
						res := m.call(fr, 0, meth, []value{v})
						if s, ok := res.(string); ok {
							return rawString(s)
						}
						return rawString(m.placeholderFor(res))
					}
				}
			}
		}
	}
	switch x := v.(type) {
	case bool, int, int8, int16, int32, int64, uint, uint8, uint16, uint32, uint64, uintptr, float32, float64, string:
		return x
	case *Term, sstr:
		return rawString(m.placeholderFor(x))
	case []value:
		if x == nil {
			return []interface{}(nil)
		}
		var elemT types.Type
		if t != nil {
			if st, ok := t.Underlying().(*types.Slice); ok {
				elemT = st.Elem()
			}
		}
		// typed slices print like []T of natives
		allStr, allI64 := true, true
		for _, e := range x {
			if _, ok := e.(string); !ok {
				allStr = false
			}
			if _, ok := e.(int64); !ok {
				allI64 = false
			}
		}
		if len(x) > 0 && allStr {
			out := make([]string, len(x))
			for i, e := range x {
				out[i] = e.(string)
			}
			return out
		}
		if len(x) > 0 && allI64 {
			out := make([]int64, len(x))
			for i, e := range x {
				out[i] = e.(int64)
			}
			return out
		}
		out := make([]interface{}, len(x))
		for i, e := range x {
			if _, isIface := e.(iface); isIface {
				out[i] = m.nativeArg(fr, e)
			} else {
				out[i] = m.nativeScalar(fr, elemT, e)
			}
		}
		return out
	case structure:
		out := make([]interface{}, len(x))
		var st *types.Struct
		if t != nil {
			st, _ = t.Underlying().(*types.Struct)
		}
		for i, e := range x {
			var ft types.Type
			if st != nil {
				ft = st.Field(i).Type()
			}
			if _, isIface := e.(iface); isIface {
				out[i] = m.nativeArg(fr, e)
			} else {
				out[i] = m.nativeScalar(fr, ft, e)
			}
		}
		return structFmt(out)
	case iface:
		return m.nativeArg(fr, x)
	case *value:
		if x == nil {
			return nil
		}
		return opaquePtr{}
	case *mapV:
		return opaqueMap{}
	}
	return opaquePtr{}
}

type rawString string

func (r rawString) Format(f fmt.State, verb rune) { fmt.Fprintf(f, "%s", string(r)) }

type opaquePtr struct{}

func (opaquePtr) Format(f fmt.State, verb rune) { fmt.Fprint(f, "0xc000000000") }

type opaqueMap struct{}

func (opaqueMap) Format(f fmt.State, verb rune) { fmt.Fprint(f, "map[…]") }

type structFmt []interface{}

func (s structFmt) Format(f fmt.State, verb rune) {
	fmt.Fprint(f, "{")
	for i, e := range s {
		if i > 0 {
			fmt.Fprint(f, " ")
		}
		fmt.Fprintf(f, "%v", e)
	}
	fmt.Fprint(f, "}")
}

func (m *Machine) findMethod(t types.Type, name string) *ssa.Function {
	ms := m.prog.MethodSets.MethodSet(t)
	for i := 0; i < ms.Len(); i++ {
		sel := ms.At(i)
		if sel.Obj().Name() == name {
			return m.prog.MethodValue(sel)
		}
	}
	return nil
}

// placeholderFor registers a symbolic value under a printable token so that
// text produced from it (Dump) can be mapped back by the harness.
func (m *Machine) placeholderFor(v value) string {
	if m.placeholders == nil {
		m.placeholders = make(map[string]value)
	}
	var t types.Type
	switch x := v.(type) {
	case *Term:
		switch {
		case x.Sort.K == SBool:
			t = types.Typ[types.Bool]
		case x.Sort.K == SBV && x.Sort.W == 64:
			t = types.Typ[types.Int64]
		}
	case sstr:
		t = types.Typ[types.String]
	}
	tok := fmt.Sprintf("ξs%dξ", len(m.placeholders))
	for k, old := range m.placeholders {
		if oi, ok := old.(iface); ok {
			if ot, ok2 := oi.v.(*Term); ok2 && ot == v {
				return k
			}
		}
	}
	m.placeholders[tok] = iface{t: t, v: v}
	return tok
}

func (m *Machine) sprintf(format value, args []value) value {
	f, ok := format.(string)
	if !ok {
		return m.sprintfSymFormat(strBytes(format), args)
	}
	// symbolic strings are spliced in for plain %s / %v verbs (Dump builds its text this way);
	// everything else is formatted natively, one verb at a time
	hasSym := false
	for _, a := range args {
		if it, ok := a.(iface); ok {
			if _, ss := it.v.(sstr); ss {
				hasSym = true
			}
		}
	}
	if !hasSym {
		nat := make([]interface{}, len(args))
		for i, a := range args {
			nat[i] = m.nativeArg(m.curFrame, a)
		}
		return fmt.Sprintf(f, nat...)
	}
	var out []value
	emit := func(s string) {
		out = append(out, strBytes(s)...)
	}
	argi := 0
	for i := 0; i < len(f); {
		if f[i] != '%' {
			j := i
			for j < len(f) && f[j] != '%' {
				j++
			}
			emit(f[i:j])
			i = j
			continue
		}
		j := i + 1
		for j < len(f) && strings.ContainsRune("+-# 0123456789.", rune(f[j])) {
			j++
		}
		if j >= len(f) {
			emit(f[i:])
			break
		}
		verb := f[i : j+1]
		i = j + 1
		if verb == "%%" {
			emit("%")
			continue
		}
		if argi >= len(args) {
			emit("%!" + verb[len(verb)-1:] + "(MISSING)")
			continue
		}
		a := args[argi]
		argi++
		if it, ok := a.(iface); ok {
			if ss, isS := it.v.(sstr); isS && (verb == "%s" || verb == "%v") {
				out = append(out, ss.b...)
				continue
			}
		}
		emit(fmt.Sprintf(verb, m.nativeArg(m.curFrame, a)))
	}
	return mkStr(out)
}

// sprintfSymFormat formats with a format string that contains symbolic bytes. A byte
// that is not '%' is copied; on the branch where a symbolic byte IS '%' the verb is
// rendered the way fmt renders a verb without operand ("%!c(MISSING)", "%%" → "%") — any
// such text differs from a verbatim copy, which is what matters to the callers.
func (m *Machine) sprintfSymFormat(f []value, args []value) value {
	var out []value
	isPct := func(b value) bool {
		if c, ok := b.(uint8); ok {
			return c == '%'
		}
		return m.branch(m.ts.Eq(m.toTerm(b), m.ts.BVConst('%', 8)))
	}
	argi := 0
	for i := 0; i < len(f); i++ {
		if !isPct(f[i]) {
			out = append(out, f[i])
			continue
		}
		if i+1 >= len(f) {
			out = append(out, strBytes("%!(NOVERB)")...)
			break
		}
		i++
		if isPct(f[i]) {
			out = append(out, uint8('%'))
			continue
		}
		if c, ok := f[i].(uint8); ok && (c == 's' || c == 'v') && argi < len(args) {
			a := args[argi]
			argi++
			if it, isI := a.(iface); isI {
				if ss, isS := it.v.(sstr); isS {
					out = append(out, ss.b...)
					continue
				}
			}
			out = append(out, strBytes(fmt.Sprintf("%"+string(c), m.nativeArg(m.curFrame, a)))...)
			continue
		}
		out = append(out, strBytes("%!")...)
		out = append(out, f[i])
		out = append(out, strBytes("(MISSING)")...)
	}
	if argi < len(args) {
		out = append(out, strBytes("%!(EXTRA)")...)
	}
	m.stubsUsed["fmt formatting with a symbolic format string → bytes copied, '%' branches rendered as fmt renders verbs without operand"]++
	return mkStr(out)
}

func (m *Machine) sprint(args []value) value {
	nat := make([]interface{}, len(args))
	for i, a := range args {
		nat[i] = m.nativeArg(m.curFrame, a)
		// fmt.Sprint adds spaces between operands when neither is a string; our
		// rawString placeholders are Formatters, which count as non-strings too.
	}
	return fmt.Sprint(nat...)
}

// errorf models fmt.Errorf: the message is formatted natively; %w operands are
// remembered so that errors.Unwrap / errors.Is work.
func (m *Machine) errorf(format value, args []value) value {
	f, _ := format.(string)
	var wrapped value
	nW := strings.Count(f, "%w")
	if nW > 0 {
		// find the operand of the first %w
		idx := 0
		for i := 0; i+1 < len(f); i++ {
			if f[i] != '%' {
				continue
			}
			if f[i+1] == '%' {
				i++
				continue
			}
			j := i + 1
			for j < len(f) && strings.ContainsRune("+-# 0123456789.", rune(f[j])) {
				j++
			}
			if j < len(f) && f[j] == 'w' {
				if idx < len(args) {
					wrapped = args[idx]
				}
				break
			}
			idx++
			i = j
		}
	}
	msg, isStr := m.sprintf(strings.ReplaceAll(f, "%w", "%v"), args).(string)
	if !isStr {
		// the message quotes symbolic text; error messages are not the subject of any property
		m.stubsUsed["fmt.Errorf with symbolic operands → error with an opaque message (the %w operand is kept)"]++
		msg = "error (message contains symbolic text)"
	}
	if wrapped != nil && m.sh.wrapErrorT != nil {
		if wi, ok := wrapped.(iface); ok && wi.t != nil {
			p := new(value)
			*p = structure{msg, wi}
			return iface{t: m.sh.wrapErrorT, v: p}
		}
	}
	return m.newError(msg)
}

func (m *Machine) newError(msg string) iface {
	p := new(value)
	*p = structure{msg}
	return iface{t: m.sh.errorStringT, v: p}
}

func (m *Machine) errorsIs(fr *frame, err, target iface) value {
	for depth := 0; depth < 64; depth++ {
		if err.t == nil {
			return target.t == nil
		}
		if sameType(err.t, target.t) && types.Comparable(err.t) {
			if m.truth(m.equals(err.t, err.v, target.v)) {
				return true
			}
		}
		un := m.findMethod(err.t, "Unwrap")
		if un == nil || un.Signature.Results().Len() != 1 {
			return false
		}
		res := m.call(fr, 0, un, []value{err.v})
		next, ok := res.(iface)
		if !ok {
			return false
		}
		err = next
	}
	return false
}

// ---------------------------------------------------------------------------
// sorting

func (m *Machine) sortSlice(fr *frame, x iface, less value, stable bool) value {
	s := x.v.([]value)
	n := len(s)
	if n < 2 {
		return nil
	}
	swap := &nativeFn{name: "swap", fn: func(_ *frame, a []value) value {
		i, j := int(asInt64(a[0])), int(asInt64(a[1]))
		vi, vj := s[i], s[j]
		m.storeSlot(&s[i], vj)
		m.storeSlot(&s[j], vi)
		return nil
	}}
	ls := structure{less, swap}
	sortPkg := m.prog.ImportedPackage("sort")
	if stable {
		m.call(fr, 0, sortPkg.Func("stable_func"), []value{ls, n})
		return nil
	}
	// sort.Slice: pdqsort_func(lessSwap, 0, n, bits.Len(n))
	limit := 0
	for k := uint(n); k > 0; k >>= 1 {
		limit++
	}
	m.call(fr, 0, sortPkg.Func("pdqsort_func"), []value{ls, 0, n, limit})
	return nil
}

// ---------------------------------------------------------------------------
// time.Parse: native for concrete arguments; an uninterpreted function pair
// for symbolic text.

const opaqueMarker = "\x00OPAQUE:"

// timeParseUF returns the uninterpreted results (unix seconds, ok) of parsing
// the opaque text `name` with `layout`: one pair of solver variables per
// (layout, text), so equal arguments give equal results and nothing else is known.
func (m *Machine) timeParseUF(layout, name string) (value, value) {
	m.stubsUsed["time.Parse on an opaque text → uninterpreted (ok, unix seconds) per (layout, text)"]++
	get := func(kind, k string, s Sort) value {
		n := "timeparse." + kind + "|" + layout + "|" + name
		if t, ok := m.inputByName[n]; ok && t != nil {
			return t
		}
		return m.newInput(n, k, s)
	}
	return get("unix", "int64", BV(64)), get("ok", "bool", BoolSort)
}

func (m *Machine) timeParse(layout, s value) value {
	ls, lok := layout.(string)
	ss, sok := s.(string)
	if lok && sok && strings.HasPrefix(ss, opaqueMarker) {
		name := strings.TrimSuffix(strings.TrimPrefix(ss, opaqueMarker), "\x00")
		unix, ok := m.timeParseUF(ls, name)
		if !m.truth(ok) {
			return tuple{zeroTime(), m.newError("parsing time: opaque text does not match layout")}
		}
		const unixToInternal = int64((1969*365 + 1969/4 - 1969/100 + 1969/400) * 86400)
		ext := m.binop(token.ADD, types.Typ[types.Int64], types.Typ[types.Int64], unix, unixToInternal)
		return tuple{structure{uint64(0), ext, (*value)(nil)}, iface{}}
	}
	if lok && sok {
		t, err := time.Parse(ls, ss)
		if err != nil {
			return tuple{zeroTime(), m.newError(err.Error())}
		}
		return tuple{m.fromNativeTime(t), iface{}}
	}
	panic(unsupported{"time.Parse on symbolic text"})
}

type timeRepr struct {
	wall uint64
	ext  int64
	loc  *time.Location
}

// nativeLoc maps an interpreted *time.Location to a native one (locations created by the
// native time.Parse are remembered; everything else, incl. time.UTC and nil, is UTC).
func (m *Machine) nativeLoc(v value) *time.Location {
	p, _ := v.(*value)
	if p == nil {
		return time.UTC
	}
	if l, ok := m.sh.locTable.Load(p); ok {
		return l.(*time.Location)
	}
	return time.UTC
}

func (m *Machine) toNativeTime(v value) (time.Time, bool) {
	st, ok := v.(structure)
	if !ok || len(st) != 3 {
		return time.Time{}, false
	}
	wall, ok1 := st[0].(uint64)
	ext, ok2 := st[1].(int64)
	if !ok1 || !ok2 {
		return time.Time{}, false
	}
	tr := timeRepr{wall: wall, ext: ext}
	if p, _ := st[2].(*value); p != nil {
		tr.loc = m.nativeLoc(p)
		if tr.loc == time.UTC {
			tr.loc = nil
		}
	}
	return *(*time.Time)(unsafe.Pointer(&tr)), true
}

func (m *Machine) fromNativeTime(t time.Time) value {
	tr := *(*timeRepr)(unsafe.Pointer(&t))
	loc := (*value)(nil)
	if tr.loc != nil && tr.loc != time.UTC {
		loc = new(value)
		*loc = structure{}
		m.sh.locTable.Store(loc, tr.loc)
	}
	return structure{tr.wall &^ (1 << 63), tr.ext, loc}
}

// nativeTimeMethod calls a method of a concrete time.Time natively.
func (m *Machine) nativeTimeMethod(name string, a []value) value {
	t, ok := m.toNativeTime(a[0])
	if !ok {
		return notHandled
	}
	meth := reflect.ValueOf(t).MethodByName(name)
	mt := meth.Type()
	in := make([]reflect.Value, mt.NumIn())
	for i := 0; i < mt.NumIn(); i++ {
		arg := a[i+1]
		if isSym(arg) {
			return notHandled
		}
		pt := mt.In(i)
		switch pt.Kind() {
		case reflect.Int, reflect.Int64, reflect.Int32:
			in[i] = reflect.ValueOf(asInt64(arg)).Convert(pt)
		case reflect.String:
			in[i] = reflect.ValueOf(arg.(string))
		case reflect.Struct:
			at, ok := m.toNativeTime(arg)
			if !ok {
				return notHandled
			}
			in[i] = reflect.ValueOf(at)
		case reflect.Ptr:
			in[i] = reflect.ValueOf(m.nativeLoc(arg))
		default:
			return notHandled
		}
	}
	outs := meth.Call(in)
	conv := func(o reflect.Value) value {
		switch o.Kind() {
		case reflect.Int:
			return int(o.Int())
		case reflect.Int64:
			return o.Int()
		case reflect.Int32:
			return int32(o.Int())
		case reflect.Bool:
			return o.Bool()
		case reflect.String:
			return o.String()
		case reflect.Struct:
			return m.fromNativeTime(o.Interface().(time.Time))
		}
		panic(unsupported{"result kind of (time.Time)." + name})
	}
	if len(outs) == 1 {
		return conv(outs[0])
	}
	res := make(tuple, len(outs))
	for i, o := range outs {
		res[i] = conv(o)
	}
	return res
}

func zeroTime() value { return structure{uint64(0), int64(0), (*value)(nil)} }

// randIntn models (*rand.Rand).Intn(n) as an arbitrary value in [0,n).
func (m *Machine) randIntn(n value) value {
	if nt, ok := n.(*Term); ok {
		if m.branch(m.ts.BVCmp(OpSle, nt, m.ts.BVConst(0, 64))) {
			m.tpanic("invalid argument to Intn")
		}
	} else if asInt64(n) <= 0 {
		m.tpanic("invalid argument to Intn")
	}
	m.randCount++
	name := fmt.Sprintf("rand#%d", m.randCount)
	m.stubsUsed["(*rand.Rand).Intn → arbitrary value in [0,n)"]++
	if m.replayVals != nil {
		var v int64
		fmt.Sscanf(m.replayVals[name], "%d", &v)
		m.inputByName[name] = nil
		return int(v)
	}
	v := m.newInput(name, "int", BV(64)).(*Term)
	m.assumeTerm(m.ts.BVCmp(OpSle, m.ts.BVConst(0, 64), v))
	m.assumeTerm(m.ts.BVCmp(OpSlt, v, m.toTerm(n)))
	return v
}

var _ = sort.Ints
