package main

import (
	"flag"
	"fmt"
	"os"
	"runtime"
	"runtime/debug"
	"runtime/pprof"
	"strings"
	"time"
)

var (
	flagRepo      = flag.String("repo", "/repo", "repository under verification")
	flagHarness   = flag.String("harness", "/verif/harness", "harness directory")
	flagProp      = flag.String("p", "", "property id (C01..C20)")
	flagTier      = flag.String("tier", "quick", "quick | thorough")
	flagReplay    = flag.String("replay", "", "replay a counterexample file natively")
	flagRun       = flag.String("run", "", "debug: run one entry concretely: entry|arg1|arg2…")
	flagSym       = flag.String("sym", "", "debug: run one entry symbolically: entry|arg1|arg2…")
	flagWorkers   = flag.Int("workers", 16, "worker goroutines")
	flagVerbose   = flag.Bool("v", false, "verbose")
	flagSolver    = flag.String("solver", "", "override solver back end")
	flagOut       = flag.String("evidence", "/verif/evidence", "evidence directory")
	flagMaxPaths  = flag.Int("maxpaths", 3000, "debug: path cap for -sym")
	flagLazy      = flag.Bool("lazy", false, "debug: lazy branching for -sym")
	flagProfile   = flag.String("cpuprofile", "", "debug: write CPU profile")
	flagConform   = flag.Bool("conform", false, "run the encoder conformance corpus only")
	flagOnly      = flag.String("only", "", "debug: run only the units whose entry|args text contains this")
	flagBudget    = flag.Int("budget", 0, "debug: override the wall budget (minutes)")
	flagSolverLog = flag.String("solverlog", "", "debug: write solver transcript of worker 0 to this file")
)

func main() {
	os.Exit(realMain())
}

func realMain() int {
	flag.Parse()
	debug.SetGCPercent(1000)
	if *flagProfile != "" {
		f, _ := os.Create(*flagProfile)
		pprof.StartCPUProfile(f)
		defer pprof.StopCPUProfile()
	}
	if tier := os.Getenv("VERIF_TIER"); tier != "" && !flagPassed("tier") {
		*flagTier = tier
	}
	start := time.Now()
	switch {
	case *flagRun != "":
		return debugRun(*flagRun, false)
	case *flagSym != "":
		return debugRun(*flagSym, true)
	case *flagConform:
		sh, err := LoadProgram(*flagRepo, *flagHarness)
		if err != nil {
			fmt.Println("INCONCLUSIVE load:", err)
			return 2
		}
		n, bad, err := runConformance(sh, 0)
		fmt.Printf("conformance: %d cases, %d mismatches, err=%v (%.1fs)\n", n, len(bad), err, time.Since(start).Seconds())
		for _, b := range bad {
			fmt.Println("  MISMATCH", b)
		}
		if err != nil || len(bad) > 0 {
			return 2
		}
	case *flagReplay != "":
		return replayCommand(*flagProp, *flagReplay)
	case *flagProp != "":
		return runCheck(*flagProp, *flagTier)
	default:
		flag.Usage()
		return 2
	}
	return 0
}

func flagPassed(name string) bool {
	found := false
	flag.Visit(func(f *flag.Flag) {
		if f.Name == name {
			found = true
		}
	})
	return found
}

func debugRun(spec string, symbolic bool) int {
	parts := strings.Split(spec, "|")
	sh, err := LoadProgram(*flagRepo, *flagHarness)
	if err != nil {
		fmt.Println("INCONCLUSIVE load:", err)
		return 2
	}
	var ms runtime.MemStats
	runtime.GC()
	runtime.ReadMemStats(&ms)
	fmt.Printf("live heap after load: %d MB\n", ms.HeapAlloc>>20)
	entry := sh.entry(parts[0])
	if entry == nil {
		fmt.Println("no entry", parts[0])
		return 2
	}
	args := []value{strSlice(parts[1:])}
	if !symbolic {
		m := NewMachine(sh, nil)
		m.replayVals = map[string]string{}
		t0 := time.Now()
		res := m.RunPath(entry, args, nil, 500_000_000)
		fmt.Printf("status=%s reason=%s steps=%d time=%v\n", res.Status, res.Reason, res.Steps, time.Since(t0))
		for _, o := range res.Observed {
			fmt.Println("  OBS", o)
		}
		for _, f := range res.Failures {
			fmt.Printf("  FAIL %+v\n", f)
		}
		return 0
	}
	kind := "z3"
	if *flagSolver != "" {
		kind = *flagSolver
	}
	solver := NewSolver(kind, 10000)
	defer solver.Close()
	if *flagSolverLog != "" {
		f, _ := os.Create(*flagSolverLog)
		defer f.Close()
		solver.log = f
	}
	m := NewMachine(sh, solver)
	m.lazy = *flagLazy
	queue := [][]int32{nil}
	paths := 0
	t0 := time.Now()
	for len(queue) > 0 && paths < *flagMaxPaths {
		prefix := queue[len(queue)-1]
		queue = queue[:len(queue)-1]
		res := m.RunPath(entry, args, prefix, 50_000_000)
		paths++
		queue = append(queue, res.Pending...)
		if *flagVerbose || res.Status == "failed" || res.Status == "undecided" {
			fmt.Printf("path %d: status=%s reason=%s steps=%d forks=%d taken=%v reached=%v\n", paths, res.Status, res.Reason, res.Steps, res.Forks, res.Taken, sortedKeys(res.Reached))
			for _, f := range res.Failures {
				fmt.Printf("  FAIL kind=%s label=%s detail=%s pos=%s model=%v\n", f.Kind, f.Label, f.Detail, f.Pos, f.Model)
			}
		}
	}
	fmt.Printf("paths=%d time=%v solver: %+v\n", paths, time.Since(t0), solver.Stats)
	return 0
}
