package main

// Persistent SMT solver processes (z3 -in / cvc5 --incremental) spoken to in
// SMT-LIB2 text. One Solver per worker goroutine. Any "(error" line in the
// solver's output makes the query inconclusive (never "unsat").

import (
	"bufio"
	"fmt"
	"io"
	"os/exec"
	"strings"
	"time"
)

type SatResult int

const (
	Unsat SatResult = iota
	Sat
	Unknown
)

func (r SatResult) String() string {
	switch r {
	case Unsat:
		return "unsat"
	case Sat:
		return "sat"
	}
	return "unknown"
}

type SolverStats struct {
	Queries   int
	SatN      int
	UnsatN    int
	UnknownN  int
	Errors    int
	Time      time.Duration
	Restarts  int
	LastError string
}

type Solver struct {
	kind      string // "z3", "z3-new", "cvc5", "cvc5-int"
	timeoutMs int
	cmd       *exec.Cmd
	in        io.WriteCloser
	out       *bufio.Reader
	buf       strings.Builder

	emitted  map[int]bool // term IDs defined in the current path scope
	declared map[string]bool
	inPath   bool
	Stats    SolverStats
	log      io.Writer // optional transcript
}

func NewSolver(kind string, timeoutMs int) *Solver {
	s := &Solver{kind: kind, timeoutMs: timeoutMs}
	s.start()
	return s
}

func (s *Solver) start() {
	var cmd *exec.Cmd
	switch s.kind {
	case "z3":
		cmd = exec.Command("z3", "-in", fmt.Sprintf("-t:%d", s.timeoutMs))
	case "z3-new":
		cmd = exec.Command("z3-new", "-in", fmt.Sprintf("-t:%d", s.timeoutMs))
	case "cvc5":
		cmd = exec.Command("cvc5", "--incremental", "--lang=smt2", "--produce-models", fmt.Sprintf("--tlimit-per=%d", s.timeoutMs))
	case "cvc5-int":
		cmd = exec.Command("cvc5", "--incremental", "--lang=smt2", "--produce-models", "--solve-bv-as-int=sum", fmt.Sprintf("--tlimit-per=%d", s.timeoutMs))
	default:
		panic("unknown solver kind " + s.kind)
	}
	in, err := cmd.StdinPipe()
	if err != nil {
		panic(err)
	}
	out, err := cmd.StdoutPipe()
	if err != nil {
		panic(err)
	}
	cmd.Stderr = cmd.Stdout
	if err := cmd.Start(); err != nil {
		panic(fmt.Sprintf("cannot start solver %s: %v", s.kind, err))
	}
	s.cmd, s.in, s.out = cmd, in, bufio.NewReaderSize(out, 1<<16)
	s.emitted = make(map[int]bool)
	s.declared = make(map[string]bool)
	s.inPath = false
	if strings.HasPrefix(s.kind, "z3") {
		s.send("(set-option :produce-models true)\n")
	} else {
		s.send("(set-logic ALL)\n")
	}
}

func (s *Solver) Close() {
	if s.cmd != nil {
		s.in.Close()
		s.cmd.Process.Kill()
		s.cmd.Wait()
		s.cmd = nil
	}
}

func (s *Solver) restart() {
	s.Close()
	s.Stats.Restarts++
	s.start()
}

func (s *Solver) send(txt string) {
	if s.log != nil {
		io.WriteString(s.log, txt)
	}
	if _, err := io.WriteString(s.in, txt); err != nil {
		s.Stats.Errors++
		s.Stats.LastError = "write: " + err.Error()
	}
}

// roundTrip sends txt followed by an echo marker and returns the output lines
// produced before the marker.
func (s *Solver) roundTrip(txt string) ([]string, bool) {
	s.send(txt + "(echo \"@@done@@\")\n")
	var lines []string
	ok := true
	for {
		line, err := s.out.ReadString('\n')
		if err != nil {
			s.Stats.Errors++
			s.Stats.LastError = "read: " + err.Error()
			return lines, false
		}
		line = strings.TrimSpace(line)
		if strings.Contains(line, "@@done@@") {
			break
		}
		if line == "" {
			continue
		}
		if s.log != nil {
			fmt.Fprintf(s.log, "; <- %s\n", line)
		}
		if strings.Contains(line, "(error") {
			ok = false
			s.Stats.Errors++
			s.Stats.LastError = line
		}
		lines = append(lines, line)
	}
	return lines, ok
}

// BeginPath opens a fresh scope for one symbolic path.
func (s *Solver) BeginPath() {
	if s.inPath {
		s.EndPath()
	}
	s.buf.Reset()
	s.buf.WriteString("(push 1)\n")
	s.emitted = make(map[int]bool)
	s.declared = make(map[string]bool)
	s.inPath = true
}

func (s *Solver) EndPath() {
	if !s.inPath {
		return
	}
	s.inPath = false
	s.buf.WriteString("(pop 1)\n")
	// flush lazily with a cheap round trip so that errors are noticed
	txt := s.buf.String()
	s.buf.Reset()
	if _, ok := s.roundTrip(txt); !ok {
		s.restart()
	}
}

// define makes sure every sub-term of t has been declared/defined.
func (s *Solver) define(ts *TermStore, t *Term) {
	if t.Op == OpConst {
		return
	}
	if t.Op == OpVar {
		if !s.declared[t.Name] {
			s.declared[t.Name] = true
			fmt.Fprintf(&s.buf, "(declare-const %s %s)\n", smtName(t.Name), t.Sort)
		}
		return
	}
	if s.emitted[t.ID] {
		return
	}
	// iterative post-order to avoid deep recursion on long ite chains
	type fr struct {
		t *Term
		i int
	}
	stack := []fr{{t, 0}}
	for len(stack) > 0 {
		top := &stack[len(stack)-1]
		if top.i < len(top.t.Args) {
			a := top.t.Args[top.i]
			top.i++
			if a.Op == OpConst {
				continue
			}
			if a.Op == OpVar {
				if !s.declared[a.Name] {
					s.declared[a.Name] = true
					fmt.Fprintf(&s.buf, "(declare-const %s %s)\n", smtName(a.Name), a.Sort)
				}
				continue
			}
			if !s.emitted[a.ID] {
				stack = append(stack, fr{a, 0})
			}
			continue
		}
		cur := top.t
		stack = stack[:len(stack)-1]
		if s.emitted[cur.ID] {
			continue
		}
		s.emitted[cur.ID] = true
		if cur.Op == OpUF {
			if !s.declared["uf:"+cur.Name] {
				s.declared["uf:"+cur.Name] = true
				s.buf.WriteString(ts.ufs[cur.Name] + "\n")
			}
		}
		// named constants + defining equations: z3's expansion of nested define-fun
		// macros is super-linear (measured 30x slower on 100-deep chains)
		fmt.Fprintf(&s.buf, "(declare-const t%d %s)\n(assert (= t%d %s))\n", cur.ID, cur.Sort, cur.ID, cur.body())
	}
}

// Assert adds t to the path condition (buffered; sent with the next query).
func (s *Solver) Assert(ts *TermStore, t *Term) {
	s.define(ts, t)
	fmt.Fprintf(&s.buf, "(assert %s)\n", t.ref())
}

// Check decides satisfiability of (path condition ∧ extra). extra may be nil.
// If modelVars is non-empty and the result is sat, their values are returned.
func (s *Solver) Check(ts *TermStore, extra *Term, modelVars []*Term) (SatResult, map[string]string) {
	start := time.Now()
	defer func() { s.Stats.Time += time.Since(start) }()
	s.Stats.Queries++
	if extra != nil {
		s.define(ts, extra)
	}
	for _, v := range modelVars {
		s.define(ts, v)
	}
	pre := s.buf.String()
	s.buf.Reset()
	var q strings.Builder
	q.WriteString(pre)
	if extra != nil {
		fmt.Fprintf(&q, "(push 1)\n(assert %s)\n", extra.ref())
	}
	q.WriteString("(check-sat)\n")
	lines, ok := s.roundTrip(q.String())
	res := Unknown
	if ok {
		for _, l := range lines {
			switch l {
			case "sat":
				res = Sat
			case "unsat":
				res = Unsat
			case "unknown", "timeout":
				res = Unknown
			}
		}
	}
	var model map[string]string
	if res == Sat && len(modelVars) > 0 {
		var g strings.Builder
		g.WriteString("(get-value (")
		for _, v := range modelVars {
			g.WriteString(v.ref())
			g.WriteByte(' ')
		}
		g.WriteString("))\n")
		ml, mok := s.roundTrip(g.String())
		if mok {
			model = parseModel(strings.Join(ml, " "), modelVars)
		}
	}
	if extra != nil {
		s.send("(pop 1)\n")
	}
	switch res {
	case Sat:
		s.Stats.SatN++
	case Unsat:
		s.Stats.UnsatN++
	default:
		s.Stats.UnknownN++
	}
	if !ok && s.Stats.LastError != "" && strings.HasPrefix(s.Stats.LastError, "read:") {
		s.restart()
	}
	return res, model
}

// parseModel parses "((a #x01) (b true) (c (- 5)))" positionally.
func parseModel(txt string, vars []*Term) map[string]string {
	toks := tokenizeSexp(txt)
	// expect: ( ( name value ) ( name value ) ... )
	m := make(map[string]string)
	i := 0
	if i < len(toks) && toks[i] == "(" {
		i++
	}
	for _, v := range vars {
		if i >= len(toks) || toks[i] != "(" {
			break
		}
		i++
		// skip the name expression (an atom or a balanced s-exp)
		i = skipSexp(toks, i)
		// read the value expression
		j := skipSexp(toks, i)
		val := strings.Join(toks[i:j], " ")
		i = j
		if i < len(toks) && toks[i] == ")" {
			i++
		}
		m[v.Name] = normalizeModelValue(val, v.Sort)
	}
	return m
}

func tokenizeSexp(s string) []string {
	var toks []string
	i := 0
	for i < len(s) {
		c := s[i]
		switch {
		case c == '(' || c == ')':
			toks = append(toks, string(c))
			i++
		case c == ' ' || c == '\t' || c == '\n' || c == '\r':
			i++
		case c == '|':
			j := i + 1
			for j < len(s) && s[j] != '|' {
				j++
			}
			toks = append(toks, s[i:min(j+1, len(s))])
			i = j + 1
		default:
			j := i
			for j < len(s) && !strings.ContainsRune("() \t\n\r", rune(s[j])) {
				j++
			}
			toks = append(toks, s[i:j])
			i = j
		}
	}
	return toks
}

func skipSexp(toks []string, i int) int {
	if i >= len(toks) {
		return i
	}
	if toks[i] != "(" {
		return i + 1
	}
	depth := 0
	for i < len(toks) {
		if toks[i] == "(" {
			depth++
		} else if toks[i] == ")" {
			depth--
			if depth == 0 {
				return i + 1
			}
		}
		i++
	}
	return i
}

// normalizeModelValue renders a model value as a decimal string (signed
// interpretation is left to the consumer: bit-vectors are printed unsigned).
func normalizeModelValue(v string, s Sort) string {
	v = strings.TrimSpace(v)
	switch s.K {
	case SBool:
		return v
	case SInt:
		v = strings.ReplaceAll(v, " ", "")
		if strings.HasPrefix(v, "(-") {
			return "-" + strings.Trim(v[2:], "()")
		}
		return v
	}
	var x uint64
	switch {
	case strings.HasPrefix(v, "#x"):
		fmt.Sscanf(v[2:], "%x", &x)
	case strings.HasPrefix(v, "#b"):
		fmt.Sscanf(v[2:], "%b", &x)
	case strings.HasPrefix(v, "( _ bv") || strings.HasPrefix(v, "(_ bv"):
		f := strings.Fields(strings.Trim(v, "()"))
		for _, p := range f {
			if strings.HasPrefix(p, "bv") {
				fmt.Sscanf(p[2:], "%d", &x)
			}
		}
	}
	return fmt.Sprintf("%d", x)
}
