package main

// Host-side enumeration of typed expression shapes (DESIGN.md §3). A shape is
// a prefix-notation source whose leaves are placeholders ?B / ?I; leaf
// assignment turns placeholders into distinct variables (b0.., i0..), symbolic
// constants (KB0.., KI0..) or literals.

import (
	"fmt"
	"sort"
	"strings"
)

type shapeSet struct {
	memoB map[int][]string
	memoI map[int][]string
	ctrl  bool // control-only grammar: and/or/if/not over B
}

func newShapeSet(ctrl bool) *shapeSet {
	return &shapeSet{memoB: map[int][]string{}, memoI: map[int][]string{}, ctrl: ctrl}
}

// splits returns all ways to write total as an ordered sum of k non-negative parts.
func splits(total, k int) [][]int {
	if k == 1 {
		return [][]int{{total}}
	}
	var out [][]int
	for first := 0; first <= total; first++ {
		for _, rest := range splits(total-first, k-1) {
			out = append(out, append([]int{first}, rest...))
		}
	}
	return out
}

func (s *shapeSet) combine(op string, sorts string, m int) []string {
	// m internal nodes in total for the children
	var out []string
	for _, sp := range splits(m, len(sorts)) {
		lists := make([][]string, len(sorts))
		for i, c := range sorts {
			if c == 'B' {
				lists[i] = s.B(sp[i])
			} else {
				lists[i] = s.I(sp[i])
			}
		}
		var rec func(i int, acc []string)
		rec = func(i int, acc []string) {
			if i == len(lists) {
				out = append(out, "("+op+" "+strings.Join(acc, " ")+")")
				return
			}
			for _, x := range lists[i] {
				rec(i+1, append(append([]string{}, acc...), x))
			}
		}
		rec(0, nil)
	}
	return out
}

func (s *shapeSet) B(m int) []string {
	if r, ok := s.memoB[m]; ok {
		return r
	}
	var out []string
	if m == 0 {
		out = []string{"?B"}
	} else {
		out = append(out, s.combine("and", "BB", m-1)...)
		out = append(out, s.combine("and", "BBB", m-1)...)
		out = append(out, s.combine("or", "BB", m-1)...)
		out = append(out, s.combine("or", "BBB", m-1)...)
		out = append(out, s.combine("not", "B", m-1)...)
		out = append(out, s.combine("if", "BBB", m-1)...)
		if !s.ctrl {
			out = append(out, s.combine(">", "II", m-1)...)
			out = append(out, s.combine("=", "II", m-1)...)
			out = append(out, s.combine("p", "B", m-1)...)
		}
	}
	s.memoB[m] = out
	return out
}

func (s *shapeSet) I(m int) []string {
	if r, ok := s.memoI[m]; ok {
		return r
	}
	var out []string
	if m == 0 {
		out = []string{"?I"}
	} else if !s.ctrl {
		out = append(out, s.combine("+", "II", m-1)...)
		out = append(out, s.combine("/", "II", m-1)...)
		out = append(out, s.combine("if", "BII", m-1)...)
		out = append(out, s.combine("q", "I", m-1)...)
	}
	s.memoI[m] = out
	return out
}

// leafSlots returns the placeholder sorts in order.
func leafSlots(shape string) []byte {
	var out []byte
	for i := 0; i+1 < len(shape); i++ {
		if shape[i] == '?' {
			out = append(out, shape[i+1])
		}
	}
	return out
}

// assign replaces placeholders according to kinds: 'v' variable, 'k' symbolic
// constant, 'l' literal, 'r' repeated variable (always b0 / i0).
func assignLeaves(shape string, kinds string) string {
	var sb strings.Builder
	nb, ni, kb, ki, lit, ns := 0, 0, 0, 0, 0, 0
	j := 0
	for i := 0; i < len(shape); i++ {
		if shape[i] != '?' {
			sb.WriteByte(shape[i])
			continue
		}
		sortc := shape[i+1]
		i++
		kind := kinds[j]
		j++
		switch {
		case sortc == 'S':
			fmt.Fprintf(&sb, "s%d", ns)
			ns++
		case kind == 'v' && sortc == 'B':
			fmt.Fprintf(&sb, "b%d", nb)
			nb++
		case kind == 'v':
			fmt.Fprintf(&sb, "i%d", ni)
			ni++
		case kind == 'r' && sortc == 'B':
			sb.WriteString("b0")
		case kind == 'r':
			sb.WriteString("i0")
		case kind == 'z' && sortc == 'I':
			sb.WriteString("(z)")
		case kind == 'z':
			fmt.Fprintf(&sb, "b%d", nb)
			nb++
		case kind == 'k' && sortc == 'B':
			fmt.Fprintf(&sb, "KB%d", kb)
			kb++
		case kind == 'k':
			fmt.Fprintf(&sb, "KI%d", ki)
			ki++
		case sortc == 'B':
			sb.WriteString([]string{"true", "false"}[lit%2])
			lit++
		default:
			sb.WriteString([]string{"0", "1", "7", "-3"}[lit%4])
			lit++
		}
	}
	return sb.String()
}

type leafPolicy int

const (
	leavesVarsOnly  leafPolicy = iota // every leaf a distinct variable
	leavesStandard                    // all-var, each single leaf constant, all constant, one literal variant, one repeated variable
	leavesExhaustVK                   // every var/const assignment
	leavesThorough                    // standard + repeated variables + each single literal
)

func leafVariants(shape string, pol leafPolicy) []string {
	slots := leafSlots(shape)
	n := len(slots)
	all := func(c byte) string { return strings.Repeat(string(c), n) }
	seen := map[string]bool{}
	var out []string
	add := func(k string) {
		s := assignLeaves(shape, k)
		if !seen[s] {
			seen[s] = true
			out = append(out, s)
		}
	}
	add(all('v'))
	if pol == leavesVarsOnly || n == 0 {
		return out
	}
	if pol == leavesExhaustVK {
		for mask := 0; mask < 1<<uint(n); mask++ {
			b := []byte(all('v'))
			for i := 0; i < n; i++ {
				if mask&(1<<uint(i)) != 0 {
					b[i] = 'k'
				}
			}
			add(string(b))
		}
		return out
	}
	for i := 0; i < n; i++ {
		b := []byte(all('v'))
		b[i] = 'k'
		add(string(b))
	}
	add(all('k'))
	// one literal variant: first leaf literal
	b := []byte(all('v'))
	b[0] = 'l'
	add(string(b))
	// a call of the operand-less custom operator z in the last integer position
	for i := n - 1; i >= 0; i-- {
		if slots[i] == 'I' {
			bz := []byte(all('v'))
			bz[i] = 'z'
			add(string(bz))
			break
		}
	}
	// one variable in every position of its sort (an operator applied to the same variable twice)
	add(all('r'))
	if pol == leavesThorough {
		for i := 1; i < n; i++ {
			b := []byte(all('v'))
			b[i] = 'l'
			add(string(b))
		}
		add(all('l'))
	}
	return out
}

// stressShapes is the fixed "jump-stress" family: deep alternating nests, if in
// every operand position, long last-child chains, deep operand stacks.
func stressShapes() []string {
	var out []string
	// alternating and/or nests of depth d, nested in first / middle / last position
	for d := 3; d <= 5; d++ {
		for pos := 0; pos < 3; pos++ {
			s := "?B"
			for k := 0; k < d; k++ {
				op := []string{"and", "or"}[k%2]
				kids := []string{"?B", "?B", "?B"}
				kids[pos] = s
				s = "(" + op + " " + strings.Join(kids, " ") + ")"
			}
			out = append(out, s)
		}
	}
	// if nests
	out = append(out,
		"(if (if ?B ?B ?B) (if ?B ?B ?B) (if ?B ?B ?B))",
		"(and (if ?B ?B ?B) ?B (if ?B ?B ?B))",
		"(or ?B (if ?B (and ?B ?B) (or ?B ?B)) ?B)",
		"(and ?B (or ?B (and ?B (or ?B (if ?B ?B ?B)))))",
		"(or (and (or (and (if ?B ?B ?B) ?B) ?B) ?B) ?B)",
		"(if (and ?B (or ?B ?B)) (or ?B (and ?B ?B)) (not (and ?B ?B)))",
		"(not (if (not ?B) (not (and ?B ?B)) (or ?B (not ?B))))",
		"(and (> ?I ?I) (= ?I ?I) (> (+ ?I ?I) ?I))",
		"(or (> ?I ?I) (and (= ?I ?I) (> ?I ?I)) (= (/ ?I ?I) ?I))",
		"(and (not (= ?I 0)) (> (/ 10 ?I) 1))",
		"(and (> ?I ?I) (> ?I ?I) (> ?I ?I) (> ?I ?I))",
		"(or (= ?I ?I) (= ?I ?I) (= ?I ?I) (= ?I ?I))",
		"(if (> ?I ?I) (+ ?I ?I) (/ ?I ?I))",
		"(> (if ?B ?I ?I) (if ?B ?I ?I))",
		"(= (+ (if ?B ?I ?I) ?I) (q ?I))",
		"(and (p ?B) (or (p ?B) ?B) (not (p ?B)))",
		"(if (p ?B) (q ?I) (+ (q ?I) ?I))",
		"(and (or ?B ?B) (or ?B ?B) (or ?B ?B))",
		"(or (and ?B ?B) (and ?B ?B) (and ?B ?B))",
		"(and (and ?B ?B) (and ?B (and ?B ?B)) ?B)",
		"(or (or ?B (or ?B ?B)) (or ?B ?B))",
		"(and (and ?B (or ?B ?B)) (and ?B ?B))",
		"(and ?B (and ?B (if ?B ?B ?B)))",
		"(or (not ?B) (not (not ?B)) (and (not ?B) ?B))",
		// guards in front of nested same-kind groups whose operands can fail (flattening must keep the order)
		"(and ?B (and (p ?B) ?B))",
		"(or ?B (or (p ?B) ?B))",
		"(and (and ?B ?B) (and (p ?B) ?B))",
		"(or (or ?B ?B) (or (> (/ ?I ?I) ?I) ?B))",
		"(and (and (not (= ?I 0)) ?B) (and (> (/ 10 ?I) 1) ?B))",
		"(and ?B (and ?B (and (> (q ?I) ?I) ?B)))",
		"(or (and ?B ?B) (or ?B (or (p ?B) ?B)))",
		// operand-less operator calls ((z) int, (y) bool) as first node of if-branches and in jump positions
		"(if ?B ?I (if (y) ?I ?I))",
		"(+ ?I (if ?B ?I (if (y) ?I ?I)))",
		"(+ ?I (if ?B ?I (if (> (z) ?I) (z) ?I)) ?I)",
		"(if ?B ?B (and (y) ?B))",
		"(if ?B ?I (+ (z) ?I))",
		"(and ?B (if ?B ?B (or (y) ?B)))",
		"(if ?B (y) (y))",
		"(or (y) ?B (y))",
		"(if (y) (z) (z))",
		"(and (if ?B (y) ?B) (y))",
		// operators and operand kinds the representatives above do not cover: 5+ operands, between, xor,
		// n-ary eq, membership in literal lists, string operands, if as condition of if
		"(+ ?I ?I ?I ?I ?I ?I)",
		"(and ?B ?B ?B ?B ?B ?B)",
		"(= ?I ?I ?I ?I ?I)",
		"(if (between ?I 1 5) ?I (+ ?I ?I ?I ?I ?I))",
		"(and (xor ?B ?B ?B) (not ?B))",
		"(if (if ?B ?B ?B) ?I ?I)",
		"(if (if ?B ?B ?B) (if ?B ?I ?I) ?I)",
		"(and (= ?S \"x\") ?B)",
		"(or (in ?I (1 2 3)) ?B (in ?S (\"x\" \"z\")))",
		"(and (overlap (1 2) (2 3)) (in ?I ()) ?B)",
		"(if (= ?S ?S) (% ?I ?I) (* ?I ?I ?I))",
		"(or (< ?I ?I) (<= ?I ?I) (>= ?I ?I) (!= ?I ?I))",
		"(and (between ?I ?I ?I) (ne ?I ?I) (eq ?B ?B))",
		"(- (* ?I ?I) (mod ?I ?I) (div ?I ?I))",
		// xor next to and / or (groups of different kinds are never merged), membership in the empty list
		// with operands that fail or have effects
		"(or ?B (xor ?B ?B))",
		"(xor ?B (or ?B ?B))",
		"(or (xor ?B ?B) ?B (xor ?B ?B))",
		"(xor (and ?B ?B) ?B (or ?B ?B))",
		"(and ?B (xor ?B ?B) ?B)",
		"(or (in (q ?I) ()) ?B)",
		"(if (in (/ 7 ?I) ()) ?I (q ?I))",
		"(and (not (in (p ?B) ())) (in ?I ()))",
		// wider operators with nested operators in late positions
		"(and ?B ?B (or ?B ?B ?B) ?B)",
		"(or ?B ?B ?B (and ?B ?B ?B) ?B)",
		"(and ?B (or ?B ?B) ?B (or ?B (and ?B ?B) ?B) ?B)",
		"(and ?B ?B ?B (if ?B ?B ?B) ?B)",
		"(or ?B ?B (if ?B (and ?B ?B ?B) ?B) ?B)",
		"(= ?I ?I (+ ?I ?I ?I) ?I)",
		"(+ ?I ?I (if ?B ?I ?I) (/ ?I ?I) ?I)",
		"(and ?B ?B (> (+ ?I ?I ?I) ?I) (= ?I ?I ?I))",
		"(and (or ?B ?B ?B ?B) (or ?B ?B ?B ?B) ?B)",
		"(if ?B (and ?B ?B ?B ?B) (or ?B ?B ?B ?B))",
	)
	// deep operand stacks: right-nested arithmetic (stack classes 8 / 16)
	for _, depth := range []int{7, 8, 9, 15, 16, 17} {
		s := "?I"
		for k := 0; k < depth; k++ {
			s = "(+ ?I " + s + ")"
		}
		out = append(out, "(> "+s+" ?I)")
	}
	// long and/or chains
	for _, n := range []int{4, 6, 9} {
		out = append(out, "(and "+strings.TrimSpace(strings.Repeat("?B ", n))+")")
		out = append(out, "(or "+strings.TrimSpace(strings.Repeat("(> ?I ?I) ", n))+")")
	}
	return out
}

// shapeFamily returns the sources of the family for a tier.
//
//	maxM      all typed shapes with ≤ maxM internal nodes
//	pol       leaf assignment policy for them
//	stress    include the jump-stress family (variables only + standard variants for small ones)
func shapeFamily(maxM int, pol leafPolicy, stress bool, rootSorts string) []string {
	ss := newShapeSet(false)
	seen := map[string]bool{}
	var out []string
	add := func(s string) {
		if !seen[s] {
			seen[s] = true
			out = append(out, s)
		}
	}
	// the alias spellings of and/or go through the same control machinery (the compiler classifies
	// nodes by name): the all-variable variant of every shape is also run with && / || and & / |
	aliases := func(v string) {
		if noAliasVariants || (!strings.Contains(v, "(and ") && !strings.Contains(v, "(or ")) {
			return
		}
		add(strings.ReplaceAll(strings.ReplaceAll(v, "(and ", "(&& "), "(or ", "(|| "))
		add(strings.ReplaceAll(strings.ReplaceAll(v, "(and ", "(& "), "(or ", "(| "))
	}
	// the grammar writes one comparison, one equality and two arithmetic operators; the single-operator
	// shapes are also run with the other built-in operators of the same signature (all-variable leaves,
	// and one variable in both positions)
	opVariants := func(sh string, i int, v string) {
		if noAliasVariants {
			return
		}
		if i != 0 && v != assignLeaves(sh, strings.Repeat("r", len(leafSlots(sh)))) {
			return
		}
		for _, r := range [][2]string{{"(> ", "(< "}, {"(> ", "(<= "}, {"(> ", "(>= "}, {"(> ", "(ge "}, {"(> ", "(le "}, {"(= ", "(!= "}, {"(= ", "(eq "}, {"(= ", "(ne "},
			{"(+ ", "(- "}, {"(+ ", "(% "}, {"(/ ", "(mod "}} {
			if strings.Contains(v, r[0]) {
				add(strings.ReplaceAll(v, r[0], r[1]))
			}
		}
	}
	for m := 1; m <= maxM; m++ {
		if strings.Contains(rootSorts, "B") {
			for _, sh := range ss.B(m) {
				for i, v := range leafVariants(sh, pol) {
					add(v)
					if i == 0 || aliasEveryVariant {
						aliases(v)
					}
					if m == 1 {
						opVariants(sh, i, v)
					}
				}
			}
		}
		if strings.Contains(rootSorts, "I") {
			for _, sh := range ss.I(m) {
				for i, v := range leafVariants(sh, pol) {
					add(v)
					if i == 0 || aliasEveryVariant {
						aliases(v)
					}
					if m == 1 {
						opVariants(sh, i, v)
					}
				}
			}
		}
	}
	if stress {
		for _, sh := range stressShapes() {
			p := leavesVarsOnly
			if len(leafSlots(sh)) <= 6 && pol != leavesVarsOnly {
				p = leavesStandard
			}
			for _, v := range leafVariants(sh, p) {
				add(v)
			}
		}
	}
	return out
}

// noAliasVariants switches the && / || / & / | spelling variants off (set by the properties for
// which the spelling is irrelevant: totality, footprint, events, formatting).
var noAliasVariants bool

// aliasEveryVariant extends the spelling variants from the all-variable variant to every leaf
// variant (set by the properties where constants and spelling meet: folding).
var aliasEveryVariant bool

func withAllAliases(f func() []Unit) []Unit {
	aliasEveryVariant = true
	defer func() { aliasEveryVariant = false }()
	return f()
}

func withoutAliases(f func() []Unit) []Unit {
	noAliasVariants = true
	defer func() { noAliasVariants = false }()
	return f()
}

func allOptSets() []string {
	var out []string
	for i := 0; i < 16; i++ {
		out = append(out, fmt.Sprintf("%04b", i))
	}
	sort.Strings(out)
	return out
}
