package main

// SSA instruction interpreter (structure derived from
// golang.org/x/tools/go/ssa/interp, BSD licence) extended for symbolic values.

import (
	"fmt"
	"go/token"
	"go/types"
	"slices"
	"strings"
	"unsafe"

	"golang.org/x/tools/go/ssa"
)

type continuation int

const (
	kNext continuation = iota
	kReturn
	kJump
)

type deferred struct {
	fn   value
	args []value
	pos  token.Pos
}

type frame struct {
	m                *Machine
	caller           *frame
	fn               *ssa.Function
	block, prevBlock *ssa.BasicBlock
	info             *fnInfo
	env              []value
	locals           []value
	defers           []deferred
	result           value
	phitemps         []value
	skipPhis         bool
}

// vkey is the identity of an SSA value (all SSA values are pointers to distinct
// heap objects; Go's collector does not move them).
func vkey(v ssa.Value) uintptr {
	return (*[2]uintptr)(unsafe.Pointer(&v))[1]
}

func (fr *frame) get(key ssa.Value) value {
	if key == nil {
		return nil
	}
	if i, ok := fr.info.idx[vkey(key)]; ok {
		if i >= 0 {
			return fr.env[i]
		}
		return fr.info.consts[-i-1]
	}
	switch key := key.(type) {
	case nil:
		return nil
	case *ssa.Function, *ssa.Builtin:
		return key
	case *ssa.Const:
		return constValue(key)
	case *ssa.Global:
		if key.Pkg == fr.m.target {
			if r, ok := fr.m.globals[key]; ok {
				return r
			}
		}
		if r, ok := fr.m.sh.globals[key]; ok {
			return r
		}
		panic(fmt.Sprintf("get: no global %v", key))
	}
	panic(fmt.Sprintf("get: no value for %T: %v", key, key.Name()))
}

func (fr *frame) set(key ssa.Value, v value) {
	fr.env[fr.info.idx[vkey(key)]] = v
}

// fnInfo is the per-function register numbering and constant pool (built once,
// read-only afterwards, shared by all workers).
type fnInfo struct {
	idx         map[uintptr]int32
	nregs       int
	consts      []value
	ext         externalFn
	skipInit    bool
	firstNonPhi map[*ssa.BasicBlock]int
}

func (sh *Shared) infoFor(fn *ssa.Function) *fnInfo {
	if v, ok := sh.fnInfos.Load(fn); ok {
		return v.(*fnInfo)
	}
	info := &fnInfo{idx: make(map[uintptr]int32), firstNonPhi: make(map[*ssa.BasicBlock]int)}
	reg := func(v ssa.Value) {
		if _, ok := info.idx[vkey(v)]; !ok {
			info.idx[vkey(v)] = int32(info.nregs)
			info.nregs++
		}
	}
	for _, p := range fn.Params {
		reg(p)
	}
	for _, fv := range fn.FreeVars {
		reg(fv)
	}
	for _, l := range fn.Locals {
		reg(l)
	}
	var ops []*ssa.Value
	for _, b := range fn.Blocks {
		fnp := len(b.Instrs)
		for i, in := range b.Instrs {
			if _, isPhi := in.(*ssa.Phi); !isPhi && i < fnp {
				fnp = i
			}
			if v, ok := in.(ssa.Value); ok {
				reg(v)
			}
			ops = in.Operands(ops[:0])
			for _, op := range ops {
				if op == nil || *op == nil {
					continue
				}
				if c, ok := (*op).(*ssa.Const); ok {
					if _, seen := info.idx[vkey(c)]; seen {
						continue
					}
					cv := constValue(c)
					switch cv.(type) {
					case structure, array:
						continue // fresh value per use
					}
					info.consts = append(info.consts, cv)
					info.idx[vkey(c)] = int32(-len(info.consts))
				}
			}
		}
		info.firstNonPhi[b] = fnp
	}
	if fn.Parent() == nil {
		info.ext = externals[fn.String()]
		if fn.Name() == "init" && fn.Pkg != nil && fn == fn.Pkg.Func("init") {
			if fn.Pkg != sh.target && !initWhitelist[fn.Pkg.Pkg.Path()] {
				info.skipInit = true
			}
		}
	}
	actual, _ := sh.fnInfos.LoadOrStore(fn, info)
	return actual.(*fnInfo)
}

func (m *Machine) infoFor(fn *ssa.Function) *fnInfo {
	if i, ok := m.fnCache[fn]; ok {
		return i
	}
	i := m.sh.infoFor(fn)
	m.fnCache[fn] = i
	return i
}

func (m *Machine) tpanic(format string, a ...interface{}) {
	panic(targetPanic{fmt.Sprintf(format, a...)})
}

func (m *Machine) derefCheck(p *value) *value {
	if p == nil {
		m.tpanic("runtime error: invalid memory address or nil pointer dereference")
	}
	return p
}

func (m *Machine) storeSlot(addr *value, v value) {
	if m.frozen != nil && (m.frozen[addr] || m.globalFrozen[addr]) {
		m.frozenWrites = append(m.frozenWrites, m.pos())
	}
	*addr = v
}

// store stores value v of type T into *addr (struct/array by element).
func (m *Machine) store(T types.Type, addr *value, v value) {
	switch T := T.Underlying().(type) {
	case *types.Struct:
		lhs := (*addr).(structure)
		rhs := v.(structure)
		for i := range lhs {
			m.store(T.Field(i).Type(), &lhs[i], rhs[i])
		}
	case *types.Array:
		lhs := (*addr).(array)
		rhs := v.(array)
		for i := range lhs {
			m.store(T.Elem(), &lhs[i], rhs[i])
		}
	default:
		m.storeSlot(addr, v)
	}
}

func (m *Machine) visitInstr(fr *frame, instr ssa.Instruction) continuation {
	switch instr := instr.(type) {
	case *ssa.DebugRef:
		// no-op

	case *ssa.UnOp:
		fr.set(instr, m.unop(instr, fr.get(instr.X)))

	case *ssa.BinOp:
		fr.set(instr, m.binop(instr.Op, instr.X.Type(), instr.Y.Type(), fr.get(instr.X), fr.get(instr.Y)))

	case *ssa.Call:
		fn, args := m.prepareCall(fr, &instr.Call)
		fr.set(instr, m.call(fr, instr.Pos(), fn, args))

	case *ssa.ChangeInterface:
		fr.set(instr, fr.get(instr.X))

	case *ssa.ChangeType:
		fr.set(instr, fr.get(instr.X))

	case *ssa.Convert:
		fr.set(instr, m.conv(instr.Type(), instr.X.Type(), fr.get(instr.X)))

	case *ssa.SliceToArrayPointer:
		fr.set(instr, sliceToArrayPointer(instr.Type(), instr.X.Type(), fr.get(instr.X)))

	case *ssa.MakeInterface:
		fr.set(instr, iface{t: instr.X.Type(), v: fr.get(instr.X)})

	case *ssa.Extract:
		fr.set(instr, fr.get(instr.Tuple).(tuple)[instr.Index])

	case *ssa.Slice:
		fr.set(instr, m.slice(fr.get(instr.X), fr.get(instr.Low), fr.get(instr.High), fr.get(instr.Max)))

	case *ssa.Return:
		switch len(instr.Results) {
		case 0:
		case 1:
			fr.result = fr.get(instr.Results[0])
		default:
			res := make([]value, 0, len(instr.Results))
			for _, r := range instr.Results {
				res = append(res, fr.get(r))
			}
			fr.result = tuple(res)
		}
		fr.block = nil
		return kReturn

	case *ssa.RunDefers:
		for len(fr.defers) > 0 {
			d := fr.defers[len(fr.defers)-1]
			fr.defers = fr.defers[:len(fr.defers)-1]
			m.call(fr, d.pos, d.fn, d.args)
		}

	case *ssa.Panic:
		panic(targetPanic{fr.get(instr.X)})

	case *ssa.Send:
		m.chanSend(fr.get(instr.Chan), fr.get(instr.X))

	case *ssa.Store:
		addr := m.ptr(fr.get(instr.Addr))
		if g, ok := instr.Addr.(*ssa.Global); ok && g.Pkg == m.target && !m.inInit && !strings.HasPrefix(g.Name(), "vf") {
			m.globalWrites = append(m.globalWrites, g.Name()+" at "+m.pos())
		}
		m.store(mustDeref(instr.Addr.Type()), addr, fr.get(instr.Val))

	case *ssa.If:
		cv := fr.get(instr.Cond)
		if t, ok := cv.(*Term); ok && !t.IsConst() {
			if _, kn := m.known[t]; !kn && (m.tryMerge(fr, t) || m.tryMergeRegion(fr, t)) {
				return kJump
			}
		}
		succ := 1
		if m.truth(cv) {
			succ = 0
		}
		fr.prevBlock, fr.block = fr.block, fr.block.Succs[succ]
		return kJump

	case *ssa.Jump:
		fr.prevBlock, fr.block = fr.block, fr.block.Succs[0]
		return kJump

	case *ssa.Defer:
		fn, args := m.prepareCall(fr, &instr.Call)
		fr.defers = append(fr.defers, deferred{fn: fn, args: args, pos: instr.Pos()})

	case *ssa.Go:
		panic(unsupported{"go statement"})

	case *ssa.MakeChan:
		sz := m.concreteInt(fr.get(instr.Size), "chan size")
		fr.set(instr, &chanV{cap: int(sz)})

	case *ssa.Alloc:
		var addr *value
		if instr.Heap {
			addr = new(value)
			fr.set(instr, addr)
		} else {
			addr = fr.get(instr).(*value)
		}
		*addr = zero(mustDeref(instr.Type()))

	case *ssa.MakeSlice:
		fr.set(instr, m.makeSlice(instr, fr.get(instr.Len), fr.get(instr.Cap)))

	case *ssa.MakeMap:
		mt := instr.Type().Underlying().(*types.Map)
		fr.set(instr, newMapV(mt.Key(), mt.Elem()))

	case *ssa.Range:
		fr.set(instr, m.rangeIter(fr.get(instr.X), instr.X.Type()))

	case *ssa.Next:
		fr.set(instr, fr.get(instr.Iter).(iter).next())

	case *ssa.FieldAddr:
		p := m.ptr(fr.get(instr.X))
		fr.set(instr, &(*p).(structure)[instr.Field])

	case *ssa.Field:
		fr.set(instr, fr.get(instr.X).(structure)[instr.Field])

	case *ssa.IndexAddr:
		fr.set(instr, m.indexAddr(fr.get(instr.X), fr.get(instr.Index), instr.Index.Type()))

	case *ssa.Index:
		fr.set(instr, m.index(fr.get(instr.X), fr.get(instr.Index), instr.Type(), instr.Index.Type()))

	case *ssa.Lookup:
		fr.set(instr, m.lookup(instr, fr.get(instr.X), fr.get(instr.Index)))

	case *ssa.MapUpdate:
		m.mapUpdate(fr.get(instr.Map), fr.get(instr.Key), fr.get(instr.Value))

	case *ssa.TypeAssert:
		fr.set(instr, m.typeAssert(instr, fr.get(instr.X).(iface)))

	case *ssa.MakeClosure:
		bindings := make([]value, 0, len(instr.Bindings))
		for _, binding := range instr.Bindings {
			bindings = append(bindings, fr.get(binding))
		}
		fr.set(instr, &closure{instr.Fn.(*ssa.Function), bindings})

	case *ssa.Phi:
		panic("unreachable: phi")

	case *ssa.Select:
		// sequential model: the first ready case in source order is taken (Go picks any ready one);
		// no case ready: default (index -1) or, for a blocking select, a hang
		chosen := -1
		for i, st := range instr.States {
			ch, _ := fr.get(st.Chan).(*chanV)
			if ch == nil {
				continue
			}
			if st.Dir == types.SendOnly {
				if ch.closed || len(ch.buf) < ch.cap {
					chosen = i
				}
			} else if len(ch.buf) > 0 || ch.closed {
				chosen = i
			}
			if chosen >= 0 {
				break
			}
		}
		if chosen < 0 && instr.Blocking {
			panic(hang{"select with no ready case blocks forever at " + m.pos()})
		}
		res := tuple{chosen, false}
		for i, st := range instr.States {
			if st.Dir == types.SendOnly {
				if i == chosen {
					m.chanSend(fr.get(st.Chan), fr.get(st.Send))
				}
				continue
			}
			if i == chosen {
				v, ok := m.chanRecv(fr.get(st.Chan), st.Chan.Type())
				res[1] = ok
				res = append(res, v)
			} else {
				res = append(res, zero(st.Chan.Type().Underlying().(*types.Chan).Elem()))
			}
		}
		fr.set(instr, res)

	default:
		panic(fmt.Sprintf("unexpected instruction: %T", instr))
	}
	return kNext
}

func (m *Machine) prepareCall(fr *frame, call *ssa.CallCommon) (fn value, args []value) {
	v := fr.get(call.Value)
	if call.Method == nil {
		fn = v
	} else {
		recv := v.(iface)
		if recv.t == nil {
			m.tpanic("runtime error: invalid memory address or nil pointer dereference (method %s invoked on nil interface)", call.Method.Name())
		}
		f := m.prog.LookupMethod(recv.t, call.Method.Pkg(), call.Method.Name())
		if f == nil {
			panic(fmt.Sprintf("method set for dynamic type %v does not contain %s", recv.t, call.Method))
		}
		fn = f
		args = append(args, recv.v)
	}
	for _, arg := range call.Args {
		args = append(args, fr.get(arg))
	}
	return
}

func (m *Machine) call(caller *frame, callpos token.Pos, fn value, args []value) value {
	switch fn := fn.(type) {
	case *ssa.Function:
		if fn == nil {
			m.tpanic("runtime error: invalid memory address or nil pointer dereference (call of nil func)")
		}
		return m.callSSA(caller, callpos, fn, args, nil)
	case *closure:
		return m.callSSA(caller, callpos, fn.Fn, args, fn.Env)
	case *ssa.Builtin:
		return m.callBuiltin(caller, callpos, fn, args)
	case *nativeFn:
		return fn.fn(caller, args)
	}
	panic(fmt.Sprintf("cannot call %T", fn))
}

const maxDepth = 3000

func (m *Machine) callSSA(caller *frame, callpos token.Pos, fn *ssa.Function, args []value, env []value) value {
	info := m.infoFor(fn)
	fr := &frame{m: m, caller: caller, fn: fn, info: info}
	if info.ext != nil {
		saved := m.curFrame
		m.curFrame = fr
		r := info.ext(m, fr, args)
		m.curFrame = saved
		if _, nh := r.(notHandledT); !nh {
			return r
		}
	}
	// package initialisers: only the target package and a whitelist of
	// pure-data standard library packages are executed.
	if info.skipInit {
		return nil
	}
	if fn.Blocks == nil {
		panic(unsupported{"no code for function: " + fn.String()})
	}
	if fn.TypeParams().Len() > 0 && len(fn.TypeArgs()) == 0 {
		panic(unsupported{"uninstantiated generic " + fn.String()})
	}
	m.depth++
	if m.depth > maxDepth {
		m.tpanic("stack overflow (call depth > %d)", maxDepth)
	}
	saved := m.curFrame
	m.curFrame = fr
	fr.env = make([]value, info.nregs)
	fr.block = fn.Blocks[0]
	fr.locals = make([]value, len(fn.Locals))
	for i, l := range fn.Locals {
		fr.locals[i] = zero(mustDeref(l.Type()))
		fr.set(l, &fr.locals[i])
	}
	for i, p := range fn.Params {
		fr.set(p, args[i])
	}
	for i, fv := range fn.FreeVars {
		fr.set(fv, env[i])
	}
	start := m.steps
	for fr.block != nil {
		m.runBlock(fr)
	}
	m.funcSteps[fn] += m.steps - start
	m.curFrame = saved
	m.depth--
	return fr.result
}

func (m *Machine) runBlock(fr *frame) {
	nonPhis := executePhis(fr)
	for _, instr := range nonPhis {
		m.steps++
		if m.steps > m.maxSteps {
			panic(budgetExceeded{})
		}
		m.curInstr = instr
		if m.visitInstr(fr, instr) != kNext {
			return
		}
	}
}

func executePhis(fr *frame) []ssa.Instruction {
	firstNonPhi := fr.info.firstNonPhi[fr.block]
	nonPhis := fr.block.Instrs[firstNonPhi:]
	if fr.skipPhis {
		fr.skipPhis = false
		return nonPhis
	}
	if firstNonPhi > 0 {
		phis := fr.block.Instrs[:firstNonPhi]
		predIndex := slices.Index(fr.block.Preds, fr.prevBlock)
		fr.phitemps = fr.phitemps[:0]
		for _, phi := range phis {
			phi := phi.(*ssa.Phi)
			fr.phitemps = append(fr.phitemps, fr.get(phi.Edges[predIndex]))
		}
		for i, phi := range phis {
			fr.set(phi.(*ssa.Phi), fr.phitemps[i])
		}
	}
	return nonPhis
}

// initTargetGlobals gives the target package fresh globals and runs its
// initialiser (dependencies were initialised once in Shared).
func (m *Machine) initTargetGlobals() {
	m.globals = make(map[*ssa.Global]*value, len(m.target.Members))
	for _, mem := range m.target.Members {
		if g, ok := mem.(*ssa.Global); ok {
			cell := zero(mustDeref(g.Type()))
			m.globals[g] = &cell
		}
	}
	m.inInit = true
	m.call(nil, token.NoPos, m.target.Func("init"), nil)
	m.inInit = false
}

func (m *Machine) concreteInt(v value, what string) int64 {
	if t, ok := v.(*Term); ok {
		if t.IsConst() {
			return signExt(t.IVal, t.Sort.W)
		}
		panic(unsupported{"symbolic " + what})
	}
	return asInt64(v)
}

// tryMerge turns a pure triangle/diamond below a symbolic branch into ite
// terms instead of forking (the lowering of &&, ||, and small conditional
// expressions). It returns false, leaving the frame untouched apart from dead
// SSA registers, when the shape or the instructions do not qualify.
func (m *Machine) tryMerge(fr *frame, c *Term) bool {
	b := fr.block
	T, F := b.Succs[0], b.Succs[1]
	var J *ssa.BasicBlock
	var sideT, sideF *ssa.BasicBlock
	isSide := func(s, j *ssa.BasicBlock) bool {
		if len(s.Preds) != 1 || len(s.Succs) != 1 || s.Succs[0] != j {
			return false
		}
		_, ok := s.Instrs[len(s.Instrs)-1].(*ssa.Jump)
		return ok
	}
	switch {
	case T != F && isSide(T, F):
		J, sideT = F, T
	case T != F && isSide(F, T):
		J, sideF = T, F
	case T != F && len(T.Succs) == 1 && isSide(T, T.Succs[0]) && isSide(F, T.Succs[0]):
		J, sideT, sideF = T.Succs[0], T, F
	default:
		return false
	}
	// J must start with phis only fed by scalars; collect them
	var phis []*ssa.Phi
	for _, in := range J.Instrs {
		if p, ok := in.(*ssa.Phi); ok {
			phis = append(phis, p)
		} else {
			break
		}
	}
	for _, s := range []*ssa.BasicBlock{sideT, sideF} {
		if s != nil && !m.speculate(fr, s) {
			return false
		}
	}
	predT, predF := b, b
	if sideT != nil {
		predT = sideT
	}
	if sideF != nil {
		predF = sideF
	}
	iT, iF := slices.Index(J.Preds, predT), slices.Index(J.Preds, predF)
	if iT < 0 || iF < 0 || iT == iF {
		return false
	}
	merged := make([]value, len(phis))
	for k, p := range phis {
		vT, vF := fr.get(p.Edges[iT]), fr.get(p.Edges[iF])
		if !scalarValue(vT) || !scalarValue(vF) {
			// identical non-scalar values need no merge
			if sameRef(vT, vF) {
				merged[k] = vT
				continue
			}
			return false
		}
		tT, tF := m.toTerm(vT), m.toTerm(vF)
		if tT.Sort != tF.Sort {
			return false
		}
		merged[k] = m.fromTerm(m.ts.Ite(c, tT, tF), p.Type())
	}
	// other predecessors' phi edges are irrelevant; install values and continue at J
	for k, p := range phis {
		fr.set(p, merged[k])
	}
	fr.prevBlock, fr.block = predT, J
	fr.skipPhis = true
	m.merges++
	return true
}

// tryMergeRegion generalises tryMerge to a small tree of pure blocks below a symbolic branch whose
// leaves all jump to one join block (if / else-if chains such as a min/max update, nested conditional
// expressions): the join's phis become nested ite terms and no path is forked.
func (m *Machine) tryMergeRegion(fr *frame, c *Term) bool {
	b := fr.block
	var J *ssa.BasicBlock
	blocks := 0
	var explore func(blk *ssa.BasicBlock) bool
	explore = func(blk *ssa.BasicBlock) bool {
		if len(blk.Preds) != 1 {
			if J == nil {
				J = blk
			}
			return J == blk
		}
		blocks++
		if blocks > 8 {
			return false
		}
		switch blk.Instrs[len(blk.Instrs)-1].(type) {
		case *ssa.Jump:
			return explore(blk.Succs[0])
		case *ssa.If:
			return explore(blk.Succs[0]) && explore(blk.Succs[1])
		}
		return false
	}
	if b.Succs[0] == b.Succs[1] || !explore(b.Succs[0]) || !explore(b.Succs[1]) || J == nil || J == b {
		return false
	}
	var phis []*ssa.Phi
	for _, in := range J.Instrs {
		if p, ok := in.(*ssa.Phi); ok {
			phis = append(phis, p)
		} else {
			break
		}
	}
	var lastPred *ssa.BasicBlock
	// eval returns the values the join's phis take when control enters blk from pred
	var eval func(pred, blk *ssa.BasicBlock) ([]value, bool)
	eval = func(pred, blk *ssa.BasicBlock) ([]value, bool) {
		if blk == J {
			idx := -1
			for i, p := range J.Preds {
				if p == pred {
					if idx >= 0 {
						return nil, false // both edges of one If lead to the join
					}
					idx = i
				}
			}
			if idx < 0 {
				return nil, false
			}
			lastPred = pred
			out := make([]value, len(phis))
			for k, p := range phis {
				out[k] = fr.get(p.Edges[idx])
			}
			return out, true
		}
		if !m.speculate(fr, blk) {
			return nil, false
		}
		switch last := blk.Instrs[len(blk.Instrs)-1].(type) {
		case *ssa.Jump:
			return eval(blk, blk.Succs[0])
		case *ssa.If:
			cv := fr.get(last.Cond)
			ct, sym := cv.(*Term)
			if !sym || ct.IsConst() {
				if m.truth(cv) {
					return eval(blk, blk.Succs[0])
				}
				return eval(blk, blk.Succs[1])
			}
			vT, ok := eval(blk, blk.Succs[0])
			if !ok {
				return nil, false
			}
			vF, ok := eval(blk, blk.Succs[1])
			if !ok {
				return nil, false
			}
			return m.mergePhiValues(ct, vT, vF, phis)
		}
		return nil, false
	}
	vT, ok := eval(b, b.Succs[0])
	if !ok {
		return false
	}
	vF, ok := eval(b, b.Succs[1])
	if !ok {
		return false
	}
	merged, ok := m.mergePhiValues(c, vT, vF, phis)
	if !ok {
		return false
	}
	for k, p := range phis {
		fr.set(p, merged[k])
	}
	fr.prevBlock, fr.block = lastPred, J
	fr.skipPhis = true
	m.merges++
	return true
}

func (m *Machine) mergePhiValues(c *Term, vT, vF []value, phis []*ssa.Phi) ([]value, bool) {
	out := make([]value, len(phis))
	for k, p := range phis {
		if !scalarValue(vT[k]) || !scalarValue(vF[k]) {
			if sameRef(vT[k], vF[k]) {
				out[k] = vT[k]
				continue
			}
			return nil, false
		}
		tT, tF := m.toTerm(vT[k]), m.toTerm(vF[k])
		if tT.Sort != tF.Sort {
			return nil, false
		}
		out[k] = m.fromTerm(m.ts.Ite(c, tT, tF), p.Type())
	}
	return out, true
}

func sameRef(a, b value) bool {
	defer func() { recover() }()
	return a == b
}

// speculate executes the pure instructions of a side block; any instruction
// that could have an effect, fork or fail aborts the speculation.
func (m *Machine) speculate(fr *frame, s *ssa.BasicBlock) (ok bool) {
	for _, in := range s.Instrs[:len(s.Instrs)-1] {
		switch in := in.(type) {
		case *ssa.DebugRef:
		case *ssa.BinOp:
			switch in.Op {
			case token.QUO, token.REM, token.SHL, token.SHR:
				return false
			}
			x, y := fr.get(in.X), fr.get(in.Y)
			if xi, isI := x.(iface); isI {
				// interface comparison panics on uncomparable dynamic types
				if yi, ok := y.(iface); !ok || (xi.t != nil && sameType(xi.t, yi.t) && !types.Comparable(xi.t)) {
					return false
				}
			}
			_, xS := x.(sstr)
			_, yS := y.(sstr)
			if (xS || yS) && in.Op != token.EQL && in.Op != token.NEQ {
				return false
			}
			_ = y
		case *ssa.UnOp:
			switch in.Op {
			case token.NOT, token.SUB, token.XOR:
			case token.MUL:
				p, isP := fr.get(in.X).(*value)
				if !isP || p == nil {
					return false
				}
			default:
				return false
			}
		case *ssa.Convert:
			if _, ok := infoOf(in.Type()); !ok {
				return false
			}
			if bi, ok := infoOf(in.X.Type()); !ok || bi.isStr {
				return false
			}
			if bi, _ := infoOf(in.Type()); bi.isStr {
				return false
			}
		case *ssa.ChangeType, *ssa.Extract, *ssa.Field, *ssa.MakeInterface, *ssa.ChangeInterface:
		case *ssa.FieldAddr:
			p, isP := fr.get(in.X).(*value)
			if !isP || p == nil {
				return false
			}
		case *ssa.TypeAssert:
			if !in.CommaOk {
				return false
			}
		default:
			return false
		}
	}
	defer func() {
		if r := recover(); r != nil {
			ok = false
		}
	}()
	for _, in := range s.Instrs[:len(s.Instrs)-1] {
		m.visitInstr(fr, in)
	}
	return true
}
