package main

// Loading /repo (+ harness overlay) into SSA form and one-time initialisation
// of the pure-data standard library packages.

import (
	"fmt"
	"go/token"
	"go/types"
	"os"
	"path/filepath"
	"sort"
	"strings"
	"sync"

	"golang.org/x/tools/go/packages"
	"golang.org/x/tools/go/ssa"
	"golang.org/x/tools/go/ssa/ssautil"
)

type Shared struct {
	prog    *ssa.Program
	target  *ssa.Package
	sizes   types.Sizes
	globals map[*ssa.Global]*value // globals of all non-target packages
	fset    *token.FileSet

	errorStringT types.Type // *errors.errorString
	wrapErrorT   types.Type // *fmt.wrapError
	fnInfos      sync.Map
	locTable     sync.Map // interpreted *time.Location → native *time.Location
	loadSeconds  float64
	overlayFiles []string
	harnessFiles map[string]string // harness file name → real path actually loaded
	degraded     []string          // harness files replaced or dropped because they do not type-check
}

// packages whose init functions are executed (once, concretely). Everything
// else in the standard library is either pure code that needs no package
// state, is called natively, or is stubbed.
var initWhitelist = map[string]bool{
	"unicode":              true,
	"unicode/utf8":         true,
	"strconv":              true,
	"strings":              true,
	"sort":                 true,
	"math":                 true,
	"math/bits":            true,
	"internal/stringslite": true,
}

// LoadProgram loads the package in repoDir with the harness files of
// harnessDir overlaid as zz_verif_<name>.go (build tag verif).
func LoadProgram(repoDir, harnessDir string) (*Shared, error) {
	// harness file name → real path; a file that does not type-check against the current
	// tree is replaced by harness/fallback/<name> when that exists and dropped otherwise
	// (graceful degradation: the entries it defines are then missing, see runCheck)
	files := map[string]string{}
	var degraded []string
	if harnessDir != "" {
		ents, err := os.ReadDir(harnessDir)
		if err != nil {
			return nil, err
		}
		for _, e := range ents {
			if e.IsDir() || !strings.HasSuffix(e.Name(), ".go") || strings.HasSuffix(e.Name(), "_test.go") {
				continue
			}
			files[e.Name()] = filepath.Join(harnessDir, e.Name())
		}
	}
	var initial []*packages.Package
	var names []string
	for attempt := 0; ; attempt++ {
		overlay := make(map[string][]byte)
		names = names[:0]
		for n, p := range files {
			data, err := os.ReadFile(p)
			if err != nil {
				return nil, err
			}
			overlay[filepath.Join(repoDir, "zz_verif_"+n)] = data
			names = append(names, n)
		}
		sort.Strings(names)
		cfg := &packages.Config{
			Mode:       packages.LoadAllSyntax,
			Dir:        repoDir,
			BuildFlags: []string{"-tags=verif"},
			Overlay:    overlay,
			Env:        append(os.Environ(), "GOFLAGS=-mod=mod", "GOPROXY=off", "GOSUMDB=off", "GOTOOLCHAIN=local", "CGO_ENABLED=0"),
		}
		var err error
		initial, err = packages.Load(cfg, ".")
		if err != nil {
			return nil, err
		}
		if len(initial) != 1 {
			return nil, fmt.Errorf("expected one package, got %d", len(initial))
		}
		var errs []string
		badFiles := map[string]string{}
		foreign := false
		packages.Visit(initial, nil, func(p *packages.Package) {
			for _, e := range p.Errors {
				errs = append(errs, e.Error())
				hit := false
				for n := range files {
					if strings.Contains(e.Pos, "zz_verif_"+n+":") {
						if _, seen := badFiles[n]; !seen {
							badFiles[n] = e.Error()
						}
						hit = true
					}
				}
				if !hit {
					foreign = true
				}
			}
		})
		if len(errs) == 0 {
			break
		}
		if foreign || len(badFiles) == 0 || attempt >= 3 {
			return nil, fmt.Errorf("package errors:\n%s", strings.Join(errs, "\n"))
		}
		for n, why := range badFiles {
			fb := filepath.Join(harnessDir, "fallback", n)
			if _, err := os.Stat(fb); err == nil && files[n] != fb {
				files[n] = fb
				degraded = append(degraded, fmt.Sprintf("%s replaced by its public-API fallback (%s)", n, why))
			} else {
				delete(files, n)
				degraded = append(degraded, fmt.Sprintf("%s dropped (%s)", n, why))
			}
		}
		sort.Strings(degraded)
	}
	prog, pkgs := ssautil.AllPackages(initial, ssa.InstantiateGenerics)
	prog.Build()
	sh := &Shared{prog: prog, target: pkgs[0], fset: prog.Fset, overlayFiles: names, harnessFiles: files, degraded: degraded,
		sizes: types.SizesFor("gc", "amd64"), globals: make(map[*ssa.Global]*value)}
	if sh.target == nil {
		return nil, fmt.Errorf("no SSA package for target")
	}
	for _, pkg := range prog.AllPackages() {
		if pkg == sh.target {
			continue
		}
		for _, mem := range pkg.Members {
			if g, ok := mem.(*ssa.Global); ok {
				cell := zero(mustDeref(g.Type()))
				sh.globals[g] = &cell
			}
		}
	}
	if p := prog.ImportedPackage("errors"); p != nil {
		sh.errorStringT = types.NewPointer(p.Type("errorString").Type())
	}
	if p := prog.ImportedPackage("fmt"); p != nil {
		sh.wrapErrorT = types.NewPointer(p.Type("wrapError").Type())
	}
	// one-time initialisation of whitelisted dependencies: run the target's init
	// with a solver-less machine; this executes the whitelisted inits (guards stay
	// set in the shared globals) and validates that the target init is executable.
	boot := NewMachine(sh, nil)
	boot.resetPath(nil, 200_000_000)
	var initErr interface{}
	func() {
		defer func() { initErr = recover() }()
		boot.initTargetGlobals()
	}()
	if initErr != nil {
		return nil, fmt.Errorf("initialisation failed: %v (at %s, stack %v)", initErr, boot.pos(), boot.stack())
	}
	return sh, nil
}

func (sh *Shared) entry(name string) *ssa.Function {
	return sh.target.Func(name)
}
