package main

// Hash-consed SMT terms with constant folding smart constructors.
// Sorts: Bool, (_ BitVec n) for n in {8,16,32,64}, Int (used for exact
// integer-valued float64 costs and for the int-blasted version encoding).

import (
	"fmt"
	"math/big"
	"strings"
)

type SortKind uint8

const (
	SBool SortKind = iota
	SBV
	SInt
)

type Sort struct {
	K SortKind
	W int // bit width for SBV
}

var (
	BoolSort = Sort{K: SBool}
	IntSort  = Sort{K: SInt}
)

func BV(w int) Sort { return Sort{K: SBV, W: w} }

func (s Sort) String() string {
	switch s.K {
	case SBool:
		return "Bool"
	case SInt:
		return "Int"
	}
	return fmt.Sprintf("(_ BitVec %d)", s.W)
}

type Op uint8

const (
	OpVar Op = iota
	OpConst
	OpNot
	OpAnd
	OpOr
	OpIte
	OpEq
	// bit-vector
	OpAdd
	OpSub
	OpMul
	OpSDiv
	OpUDiv
	OpSRem
	OpURem
	OpBAnd
	OpBOr
	OpBXor
	OpShl
	OpLShr
	OpAShr
	OpNeg
	OpBNot
	OpSlt
	OpSle
	OpUlt
	OpUle
	OpExtract // ival = hi<<8 | lo
	OpZExt    // ival = extra bits
	OpSExt    // ival = extra bits
	OpConcat
	// Int
	OpIAdd
	OpISub
	OpIMul
	OpILt
	OpILe
	OpINeg
	// uninterpreted function application; name = function symbol
	OpUF
)

var opNames = map[Op]string{
	OpNot: "not", OpAnd: "and", OpOr: "or", OpIte: "ite", OpEq: "=",
	OpAdd: "bvadd", OpSub: "bvsub", OpMul: "bvmul", OpSDiv: "bvsdiv", OpUDiv: "bvudiv",
	OpSRem: "bvsrem", OpURem: "bvurem", OpBAnd: "bvand", OpBOr: "bvor", OpBXor: "bvxor",
	OpShl: "bvshl", OpLShr: "bvlshr", OpAShr: "bvashr", OpNeg: "bvneg", OpBNot: "bvnot",
	OpSlt: "bvslt", OpSle: "bvsle", OpUlt: "bvult", OpUle: "bvule", OpConcat: "concat",
	OpIAdd: "+", OpISub: "-", OpIMul: "*", OpILt: "<", OpILe: "<=", OpINeg: "-",
}

type Term struct {
	Op   Op
	Sort Sort
	Args []*Term
	IVal uint64   // constant value (BV: masked; Bool: 0/1), or parameters for Extract/ZExt/SExt
	Big  *big.Int // constant value for Int sort
	Name string   // OpVar / OpUF
	ID   int
}

// TermStore hash-conses terms. One store per symbolic path (never shared
// between goroutines).
type TermStore struct {
	tab   map[string]*Term
	next  int
	vars  []*Term           // declaration order
	ufs   map[string]string // UF name -> declaration text
	ufOrd []string
}

func NewTermStore() *TermStore {
	return &TermStore{tab: make(map[string]*Term), ufs: make(map[string]string)}
}

func (ts *TermStore) intern(t *Term) *Term {
	var sb strings.Builder
	fmt.Fprintf(&sb, "%d|%d.%d|%d|%s|", t.Op, t.Sort.K, t.Sort.W, t.IVal, t.Name)
	if t.Big != nil {
		sb.WriteString(t.Big.String())
	}
	for _, a := range t.Args {
		fmt.Fprintf(&sb, ",%d", a.ID)
	}
	k := sb.String()
	if old, ok := ts.tab[k]; ok {
		return old
	}
	t.ID = ts.next
	ts.next++
	ts.tab[k] = t
	if t.Op == OpVar {
		ts.vars = append(ts.vars, t)
	}
	return t
}

func mask(w int) uint64 {
	if w >= 64 {
		return ^uint64(0)
	}
	return (uint64(1) << uint(w)) - 1
}

func signExt(v uint64, w int) int64 {
	if w >= 64 {
		return int64(v)
	}
	sh := uint(64 - w)
	return int64(v<<sh) >> sh
}

func (t *Term) IsConst() bool { return t.Op == OpConst }
func (t *Term) IsTrue() bool  { return t.Op == OpConst && t.Sort.K == SBool && t.IVal == 1 }
func (t *Term) IsFalse() bool { return t.Op == OpConst && t.Sort.K == SBool && t.IVal == 0 }

func (ts *TermStore) Var(name string, s Sort) *Term {
	return ts.intern(&Term{Op: OpVar, Sort: s, Name: name})
}

func (ts *TermStore) Bool(b bool) *Term {
	v := uint64(0)
	if b {
		v = 1
	}
	return ts.intern(&Term{Op: OpConst, Sort: BoolSort, IVal: v})
}

func (ts *TermStore) BVConst(v uint64, w int) *Term {
	return ts.intern(&Term{Op: OpConst, Sort: BV(w), IVal: v & mask(w)})
}

func (ts *TermStore) IntConst(v *big.Int) *Term {
	return ts.intern(&Term{Op: OpConst, Sort: IntSort, Big: new(big.Int).Set(v)})
}

func (ts *TermStore) IntConst64(v int64) *Term { return ts.IntConst(big.NewInt(v)) }

func (ts *TermStore) Not(a *Term) *Term {
	if a.IsConst() {
		return ts.Bool(a.IVal == 0)
	}
	if a.Op == OpNot {
		return a.Args[0]
	}
	return ts.intern(&Term{Op: OpNot, Sort: BoolSort, Args: []*Term{a}})
}

func (ts *TermStore) And(a, b *Term) *Term {
	if a.IsConst() {
		if a.IVal == 0 {
			return a
		}
		return b
	}
	if b.IsConst() {
		if b.IVal == 0 {
			return b
		}
		return a
	}
	if a == b {
		return a
	}
	if ts.Not(a) == b {
		return ts.Bool(false)
	}
	return ts.intern(&Term{Op: OpAnd, Sort: BoolSort, Args: []*Term{a, b}})
}

func (ts *TermStore) Or(a, b *Term) *Term {
	if a.IsConst() {
		if a.IVal == 1 {
			return a
		}
		return b
	}
	if b.IsConst() {
		if b.IVal == 1 {
			return b
		}
		return a
	}
	if a == b {
		return a
	}
	if ts.Not(a) == b {
		return ts.Bool(true)
	}
	return ts.intern(&Term{Op: OpOr, Sort: BoolSort, Args: []*Term{a, b}})
}

func (ts *TermStore) Ite(c, a, b *Term) *Term {
	if c.IsConst() {
		if c.IVal == 1 {
			return a
		}
		return b
	}
	if a == b {
		return a
	}
	if a.Sort != b.Sort {
		panic(fmt.Sprintf("ite sort mismatch %v %v", a.Sort, b.Sort))
	}
	if a.Sort.K == SBool {
		switch {
		case a.IsTrue() && b.IsFalse():
			return c
		case a.IsFalse() && b.IsTrue():
			return ts.Not(c)
		case a.IsTrue():
			return ts.Or(c, b)
		case b.IsFalse():
			return ts.And(c, a)
		case a.IsFalse():
			return ts.And(ts.Not(c), b)
		case b.IsTrue():
			return ts.Or(ts.Not(c), a)
		}
	}
	return ts.intern(&Term{Op: OpIte, Sort: a.Sort, Args: []*Term{c, a, b}})
}

func (ts *TermStore) Eq(a, b *Term) *Term {
	if a.Sort != b.Sort {
		panic(fmt.Sprintf("eq sort mismatch %v %v", a.Sort, b.Sort))
	}
	if a == b {
		return ts.Bool(true)
	}
	if a.IsConst() && b.IsConst() {
		if a.Sort.K == SInt {
			return ts.Bool(a.Big.Cmp(b.Big) == 0)
		}
		return ts.Bool(a.IVal == b.IVal)
	}
	if a.Sort.K == SBool {
		if a.IsConst() {
			a, b = b, a
		}
		if b.IsTrue() {
			return a
		}
		if b.IsFalse() {
			return ts.Not(a)
		}
	}
	if a.ID > b.ID {
		a, b = b, a
	}
	return ts.intern(&Term{Op: OpEq, Sort: BoolSort, Args: []*Term{a, b}})
}

// BVBin builds a bit-vector binary operation with constant folding.
func (ts *TermStore) BVBin(op Op, a, b *Term) *Term {
	if a.Sort != b.Sort || a.Sort.K != SBV {
		panic(fmt.Sprintf("bvbin sort mismatch %v %v (op %d)", a.Sort, b.Sort, op))
	}
	w := a.Sort.W
	if a.IsConst() && b.IsConst() {
		x, y := a.IVal, b.IVal
		sx, sy := signExt(x, w), signExt(y, w)
		switch op {
		case OpAdd:
			return ts.BVConst(x+y, w)
		case OpSub:
			return ts.BVConst(x-y, w)
		case OpMul:
			return ts.BVConst(x*y, w)
		case OpBAnd:
			return ts.BVConst(x&y, w)
		case OpBOr:
			return ts.BVConst(x|y, w)
		case OpBXor:
			return ts.BVConst(x^y, w)
		case OpSDiv:
			if y != 0 {
				if sy == -1 {
					return ts.BVConst(uint64(-sx), w)
				}
				return ts.BVConst(uint64(sx/sy), w)
			}
		case OpSRem:
			if y != 0 {
				if sy == -1 {
					return ts.BVConst(0, w)
				}
				return ts.BVConst(uint64(sx%sy), w)
			}
		case OpUDiv:
			if y != 0 {
				return ts.BVConst(x/y, w)
			}
		case OpURem:
			if y != 0 {
				return ts.BVConst(x%y, w)
			}
		case OpShl:
			if y >= uint64(w) {
				return ts.BVConst(0, w)
			}
			return ts.BVConst(x<<y, w)
		case OpLShr:
			if y >= uint64(w) {
				return ts.BVConst(0, w)
			}
			return ts.BVConst(x>>y, w)
		case OpAShr:
			if y >= uint64(w) {
				y = uint64(w - 1)
			}
			return ts.BVConst(uint64(sx>>y), w)
		}
	}
	// light identities
	switch op {
	case OpAdd:
		if a.IsConst() && a.IVal == 0 {
			return b
		}
		if b.IsConst() && b.IVal == 0 {
			return a
		}
		// (x + c1) + c2 = x + (c1+c2)
		if a.IsConst() {
			a, b = b, a
		}
		if b.IsConst() && a.Op == OpAdd && a.Args[1].IsConst() {
			return ts.BVBin(OpAdd, a.Args[0], ts.BVConst(a.Args[1].IVal+b.IVal, w))
		}
	case OpSub:
		if b.IsConst() && b.IVal == 0 {
			return a
		}
		if a == b {
			return ts.BVConst(0, w)
		}
	case OpBAnd:
		if a == b {
			return a
		}
		if (a.IsConst() && a.IVal == 0) || (b.IsConst() && b.IVal == 0) {
			return ts.BVConst(0, w)
		}
	case OpBOr:
		if a == b {
			return a
		}
	}
	return ts.intern(&Term{Op: op, Sort: a.Sort, Args: []*Term{a, b}})
}

func (ts *TermStore) BVCmp(op Op, a, b *Term) *Term {
	if a.Sort != b.Sort || a.Sort.K != SBV {
		panic(fmt.Sprintf("bvcmp sort mismatch %v %v", a.Sort, b.Sort))
	}
	w := a.Sort.W
	if a.IsConst() && b.IsConst() {
		x, y := a.IVal, b.IVal
		sx, sy := signExt(x, w), signExt(y, w)
		switch op {
		case OpSlt:
			return ts.Bool(sx < sy)
		case OpSle:
			return ts.Bool(sx <= sy)
		case OpUlt:
			return ts.Bool(x < y)
		case OpUle:
			return ts.Bool(x <= y)
		}
	}
	if a == b {
		return ts.Bool(op == OpSle || op == OpUle)
	}
	return ts.intern(&Term{Op: op, Sort: BoolSort, Args: []*Term{a, b}})
}

func (ts *TermStore) BVUn(op Op, a *Term) *Term {
	w := a.Sort.W
	if a.IsConst() {
		switch op {
		case OpNeg:
			return ts.BVConst(-a.IVal, w)
		case OpBNot:
			return ts.BVConst(^a.IVal, w)
		}
	}
	return ts.intern(&Term{Op: op, Sort: a.Sort, Args: []*Term{a}})
}

func (ts *TermStore) Extract(a *Term, hi, lo int) *Term {
	if lo == 0 && hi == a.Sort.W-1 {
		return a
	}
	if a.IsConst() {
		return ts.BVConst(a.IVal>>uint(lo), hi-lo+1)
	}
	// extract of an extension back to (at most) the original width
	if (a.Op == OpZExt || a.Op == OpSExt) && lo == 0 && hi < a.Args[0].Sort.W {
		return ts.Extract(a.Args[0], hi, 0)
	}
	return ts.intern(&Term{Op: OpExtract, Sort: BV(hi - lo + 1), Args: []*Term{a}, IVal: uint64(hi)<<8 | uint64(lo)})
}

func (ts *TermStore) ZExt(a *Term, to int) *Term {
	if to == a.Sort.W {
		return a
	}
	if a.IsConst() {
		return ts.BVConst(a.IVal, to)
	}
	return ts.intern(&Term{Op: OpZExt, Sort: BV(to), Args: []*Term{a}, IVal: uint64(to - a.Sort.W)})
}

func (ts *TermStore) SExt(a *Term, to int) *Term {
	if to == a.Sort.W {
		return a
	}
	if a.IsConst() {
		return ts.BVConst(uint64(signExt(a.IVal, a.Sort.W)), to)
	}
	return ts.intern(&Term{Op: OpSExt, Sort: BV(to), Args: []*Term{a}, IVal: uint64(to - a.Sort.W)})
}

// Int-sorted arithmetic (exact integers).
func (ts *TermStore) IBin(op Op, a, b *Term) *Term {
	if a.Sort.K != SInt || b.Sort.K != SInt {
		panic("IBin on non-Int")
	}
	if a.IsConst() && b.IsConst() {
		r := new(big.Int)
		switch op {
		case OpIAdd:
			return ts.IntConst(r.Add(a.Big, b.Big))
		case OpISub:
			return ts.IntConst(r.Sub(a.Big, b.Big))
		case OpIMul:
			return ts.IntConst(r.Mul(a.Big, b.Big))
		}
	}
	if op == OpIAdd {
		if a.IsConst() && a.Big.Sign() == 0 {
			return b
		}
		if b.IsConst() && b.Big.Sign() == 0 {
			return a
		}
	}
	return ts.intern(&Term{Op: op, Sort: IntSort, Args: []*Term{a, b}})
}

func (ts *TermStore) ICmp(op Op, a, b *Term) *Term {
	if a.IsConst() && b.IsConst() {
		c := a.Big.Cmp(b.Big)
		if op == OpILt {
			return ts.Bool(c < 0)
		}
		return ts.Bool(c <= 0)
	}
	if a == b {
		return ts.Bool(op == OpILe)
	}
	return ts.intern(&Term{Op: op, Sort: BoolSort, Args: []*Term{a, b}})
}

// UF declares (once) and applies an uninterpreted function.
func (ts *TermStore) UF(name string, res Sort, args ...*Term) *Term {
	if _, ok := ts.ufs[name]; !ok {
		var sb strings.Builder
		fmt.Fprintf(&sb, "(declare-fun %s (", name)
		for i, a := range args {
			if i > 0 {
				sb.WriteByte(' ')
			}
			sb.WriteString(a.Sort.String())
		}
		fmt.Fprintf(&sb, ") %s)", res)
		ts.ufs[name] = sb.String()
		ts.ufOrd = append(ts.ufOrd, name)
	}
	return ts.intern(&Term{Op: OpUF, Sort: res, Args: args, Name: name})
}

// ---------------------------------------------------------------------------
// SMT-LIB printing

func smtName(n string) string {
	return "|" + strings.ReplaceAll(n, "|", "_") + "|"
}

func bvLit(v uint64, w int) string {
	if w%4 == 0 {
		return fmt.Sprintf("#x%0*x", w/4, v&mask(w))
	}
	return fmt.Sprintf("#b%0*b", w, v&mask(w))
}

// atomString renders leaves (vars and constants) inline.
func (t *Term) atomString() (string, bool) {
	switch t.Op {
	case OpVar:
		return smtName(t.Name), true
	case OpConst:
		switch t.Sort.K {
		case SBool:
			if t.IVal == 1 {
				return "true", true
			}
			return "false", true
		case SInt:
			if t.Big.Sign() < 0 {
				return "(- " + new(big.Int).Neg(t.Big).String() + ")", true
			}
			return t.Big.String(), true
		}
		return bvLit(t.IVal, t.Sort.W), true
	}
	return "", false
}

// ref is how a term is referred to inside other terms once it was defined.
func (t *Term) ref() string {
	if s, ok := t.atomString(); ok {
		return s
	}
	return fmt.Sprintf("t%d", t.ID)
}

// body renders the one-level definition of a non-leaf term.
func (t *Term) body() string {
	var sb strings.Builder
	switch t.Op {
	case OpExtract:
		fmt.Fprintf(&sb, "((_ extract %d %d) %s)", t.IVal>>8, t.IVal&0xff, t.Args[0].ref())
		return sb.String()
	case OpZExt:
		fmt.Fprintf(&sb, "((_ zero_extend %d) %s)", t.IVal, t.Args[0].ref())
		return sb.String()
	case OpSExt:
		fmt.Fprintf(&sb, "((_ sign_extend %d) %s)", t.IVal, t.Args[0].ref())
		return sb.String()
	case OpUF:
		if len(t.Args) == 0 {
			return t.Name
		}
		sb.WriteString("(" + t.Name)
	default:
		sb.WriteString("(" + opNames[t.Op])
	}
	for _, a := range t.Args {
		sb.WriteByte(' ')
		sb.WriteString(a.ref())
	}
	sb.WriteByte(')')
	return sb.String()
}

// String renders a term fully inline (for diagnostics / samples only).
func (t *Term) String() string {
	return t.str(0)
}

func (t *Term) str(depth int) string {
	if s, ok := t.atomString(); ok {
		return s
	}
	if depth > 6 {
		return "…"
	}
	var sb strings.Builder
	switch t.Op {
	case OpExtract:
		fmt.Fprintf(&sb, "((_ extract %d %d)", t.IVal>>8, t.IVal&0xff)
	case OpZExt:
		fmt.Fprintf(&sb, "((_ zero_extend %d)", t.IVal)
	case OpSExt:
		fmt.Fprintf(&sb, "((_ sign_extend %d)", t.IVal)
	case OpUF:
		sb.WriteString("(" + t.Name)
	default:
		sb.WriteString("(" + opNames[t.Op])
	}
	for _, a := range t.Args {
		sb.WriteByte(' ')
		sb.WriteString(a.str(depth + 1))
	}
	sb.WriteByte(')')
	return sb.String()
}
