package main

// Encoder conformance: a corpus of concrete expressions is pushed through the
// real (natively compiled) code and through the executor in concrete mode;
// every observation (Dump, DumpTable, Eval/TryEval results, error-ness, event
// streams, formatter output) must be identical.

import (
	"fmt"
	"strings"
)

type conformCase struct {
	src  string
	opts string
}

func conformLimit(tier string) int {
	if tier == "thorough" {
		return 0
	}
	return 0
}

func conformCorpus() []conformCase {
	srcs := []string{
		`#sync`, // sync.Map / Mutex / Once / atomics from their real source on the executor's sync/atomic model
		`(+ 1 1)`, `(= 1 1)`, `(if T 1 0)`, `(if (< a 18) "Child" "Adult")`,
		`(and (> a 1) (or T (= b 2)))`,
		`(< (+ 1 (- 2 v3) (/ 6 3) 4) (* 5 6 7))`,
		`(and (= 0 0) (or (& (ne 1 1) (!= 0 0) (!= 0 0)) (not (!= 0 0)) (not (!= 0 0))))`,
		`(and (if T F T) (or T (!= 0 0)))`,
		`(and (if T (= 0 0) (= 0 0)) (not (= 0 0)))`,
		`(eq (if T F T) (not T))`,
		`(if T (or (eq 1 2) T) (= 3 4))`,
		`(if (= 1 2) (not F) (and (!= 3 4) T T))`,
		`(if (and (= 0 0) T) (not (= 0 0)) (!= 0 0))`,
		`(not (and (if T (!= 3 3) (= 4 4)) (= 5 5) (= 6 6)))`,
		`(or (if (= 1 1) (< 4 2) (!= 5 6)) (eq 8 -8))`,
		`;;;;optimize:false
(and (and (not (!= 1 1)) (or (!= 2 2) (!= 3 3) (= 4 4) (!= 5 5))) (= 6 6) (!= 7 7))`,
		`(- (/ 48 -36 9) (* 1 -26 28 -45) (* 32 (% 1 22) (/ 37 28) (* 15 -3 -7 -50)))`,
		`(% (* a 79 14 1 29) (* a 12 a b) (if (eq (= 0 0) T T T) a (* a b -9)) (- (* 10 47 a 78) -14 13))`,
		`(in a l)`, `(in s ls)`, `(in "x" ls)`, `(in 2 (1 2 3))`, `(in "" ())`, `(overlap l (3 4))`, `(overlap ls ("q"))`, `(overlap () (1 2 3))`, `(overlap (1 2) ())`,
		`(between a 1 5)`, `(between a 5 1)`, `(xor T F T)`, `(! T)`, `(&& T F)`, `(|| F F T)`,
		`(/ a c)`, `(% a c)`, `(/ a 0)`, `(+ a s)`, `(and a T)`, `(if a 1 2)`, `(not a)`, `(> s 1)`,
		`(and (!= c 0) (> (/ 10 c) 1))`, `(or (= c 0) (> (/ 10 c) 1))`,
		`(t_version "1.2.3")`, `(> (t_version app_version) (t_version "1.2.1"))`, `(version "1.2.3.4" 4)`, `(version "1.x")`, `(version "10000.1")`, `(version "1.2" 5)`,
		`(date "2022-02-02")`, `(datetime "2022-02-02 10:11:12")`, `(date "nope")`, `(t_date "02/01/2006" "02/01/2006")`, `(td_time "2022-02-02 10:11:12")`,
		`(= (date "2022-02-02") 1643760000)`,
		`(+ K 1)`, `(and KT (> a K))`, `(+ 1 (+ 2 (+ 3 (+ 4 (+ 5 (+ 6 (+ 7 (+ 8 (+ 9 (+ 10 a))))))))))`,
		`(and (or (and (or (and T F) T) F) T) (or F (and T (or F (and T T)))))`,
		`(and (> a 1) (> b 1) (> c 1) (> d 1) (= a 3) (= b -7))`,
		`(or (> a 10) (> b 10) (> c 10) (> d 10))`,
		`(if (if T F T) (if F 1 2) (if T 3 4))`,
		`(+ (if T 1 2) (if F 3 4) (if (> a 1) a b))`,
		`(eq 1 1 1 1)`, `(eq 1 1 2)`, `(ne 1 2)`, `(= "a" "a")`, `(= "a" 1)`, `(= T T)`, `(!= s "hello")`,
		`()`, `(`, `)`, `(+ 1`, `(+ 1 1))`, `(1 2)`, `(foo 1)`, `(+ 1 zz)`, `(if T 1)`, `(let x 1)`, `"abc"`, `(= s "a b (c) ;d")`, `(+ 1 1.0)`, `(= abc 0cc)`,
		`(and ()`, `(now)`, `(+ -1 1)`, `(- .def 2)`, `(in "" ())`, `(= (now) 123)`,
		"(+ 1 ;; c1\n 2) ;; c2", ";; only a comment\n(+ 1 2)", "  (\n+\t1\n1)  ",
		"(if (<= age 3) \"👋~ 👶\" ;; emoji 🤪\n (if (or (in s (\"zh\" \"zh-CN\")) (= s \"CN\")) \"你好\" \"hello\"))",
		`(and T T F)`, `(and (= v1 1) (= v2 2))`, `(or (and (= 3 v3) (< (/ v6 3) v4)) (< 5 v6) false)`,
		`(and (and (= 3 v3) (< (/ v6 3) v4)) (< 5 v6) false)`, `(is_child 18)`,
		`(+ 1 1 1 1 1 1 1 1 1 1 1 1 1 1 1 1 1 1 1 1)`,
	}
	optSets := []string{"", "off", "cf", "rn", "fe", "ro", "event", "event,off", "undef"}
	var out []conformCase
	for i, s := range srcs {
		// every source with "" and "off"; the others round-robin to keep the corpus small
		out = append(out, conformCase{s, ""}, conformCase{s, "off"})
		out = append(out, conformCase{s, optSets[2+i%(len(optSets)-2)]})
	}
	infix := []string{
		`1 + 1`, `a + b`, `a + b + mod(7, 3)`, `a && b && mod(c + 1, 10) == 0`, `if(a > 0, a, 0 - a)`,
		`a >= 8 && !(T && !F) && mod(c + 6 * d, 10) == 7`, `if(in(s, ["aa" "bb" "hello"]), add(a, b, c, d), mul(a, b, c, d))`,
		`1 + 2 * 3 - 4 / 5`, `(1 + 2) * 3`, `3 + 4 * 2 / ( 1 - 5 ) - 6`, `!T`, `!T && (a + 1 == c)`, `mod(4, 2) * 3`, `1 + 1 = 2 | 4 = 2 + 2 & true`,
		`and(!T, a == b)`, `1 +`, `+`, `(`, `)`, `a b`, `[1 2]`, `in(a, [1 2 3])`, `!in(a, [1 2 3])`, `if(if(T, F, T), a, b)`, `a,b`,
	}
	for _, s := range infix {
		out = append(out, conformCase{s, "infix"}, conformCase{s, "infix,off"})
	}
	return out
}

func runConformance(sh *Shared, limit int) (int, []string, error) {
	native := NewNativeRunner(*flagRepo, *flagHarness)
	native.files = sh.harnessFiles
	defer native.Close()
	return runConformanceWith(sh, native, limit)
}

func runConformanceWith(sh *Shared, native *NativeRunner, limit int) (int, []string, error) {
	corpus := conformCorpus()
	if limit > 0 && len(corpus) > limit {
		corpus = corpus[:limit]
	}
	var files []ReplayFile
	for _, c := range corpus {
		files = append(files, ReplayFile{Entry: "VerifConform", Args: []string{c.src, c.opts}, Model: map[string]string{}})
	}
	nres, err := native.Run(files)
	if err != nil {
		return 0, nil, err
	}
	entry := sh.entry("VerifConform")
	if entry == nil {
		return 0, nil, fmt.Errorf("harness entry VerifConform missing")
	}
	m := NewMachine(sh, nil)
	var bad []string
	for i, c := range corpus {
		m.replayVals = map[string]string{}
		res := m.RunPath(entry, []value{strSlice([]string{c.src, c.opts})}, nil, 500_000_000)
		var symStatus string
		switch res.Status {
		case "ok":
			symStatus = "ok"
		case "failed":
			if len(res.Failures) > 0 && res.Failures[0].Kind == "panic" {
				symStatus = "panic"
			} else if len(res.Failures) > 0 && res.Failures[0].Kind == "hang" {
				symStatus = "hang"
			} else {
				symStatus = "fail"
			}
		default:
			symStatus = res.Status + ": " + res.Reason
		}
		natStatus := nres[i].Status
		if strings.HasPrefix(natStatus, "panic msg=") {
			natStatus = "panic"
		}
		if symStatus != natStatus {
			bad = append(bad, fmt.Sprintf("%q [%s]: status native=%s executor=%s", c.src, c.opts, clip(nres[i].Status, 200), symStatus))
			continue
		}
		if symStatus == "panic" {
			continue // observations up to a panic need not be compared
		}
		if d := diffObs(nres[i].Obs, res.Observed); d != "" {
			bad = append(bad, fmt.Sprintf("%q [%s]: %s", c.src, c.opts, d))
		}
	}
	return len(corpus), bad, nil
}

func diffObs(nat, sym []string) string {
	if len(nat) != len(sym) {
		return fmt.Sprintf("observation count native=%d executor=%d\n native=%v\n executor=%v", len(nat), len(sym), nat, sym)
	}
	for i := range nat {
		// the native observations travel through JSON, which replaces invalid UTF-8
		if strings.ToValidUTF8(nat[i], "\uFFFD") != strings.ToValidUTF8(sym[i], "\uFFFD") {
			a, b := nat[i], sym[i]
			if strings.HasPrefix(a, "eval-err=") || strings.HasPrefix(a, "compile-err=") {
				// error texts may contain %+v renderings of pointers/func values; compare
				// only the stable prefix
				if errPrefix(a) == errPrefix(b) {
					continue
				}
			}
			return fmt.Sprintf("observation %d differs:\n native  =%q\n executor=%q", i, a, b)
		}
	}
	return ""
}

func errPrefix(s string) string {
	if i := strings.Index(s, "0x"); i >= 0 {
		return s[:i]
	}
	return s
}
