package main

// Native replay: the harness files are compiled into the real package with
// `go test -c -tags verif -overlay`, and solver assignments are executed
// against that binary.

import (
	"bufio"
	"encoding/json"
	"fmt"
	"os"
	"os/exec"
	"path/filepath"
	"strings"
	"sync"
)

type ReplayFile struct {
	Property string            `json:"property"`
	Entry    string            `json:"entry"`
	Args     []string          `json:"args"`
	Model    map[string]string `json:"model"`
	Label    string            `json:"label"`
	Kind     string            `json:"kind"`
	Detail   string            `json:"detail,omitempty"`
	Pos      string            `json:"pos,omitempty"`
	Finger   string            `json:"fingerprint,omitempty"`
	Stack    []string          `json:"stack,omitempty"`
}

type NativeResult struct {
	Status  string // ok | assumed-away | fail label=… | panic msg=… | error …
	Obs     []string
	Reached []string
}

type NativeRunner struct {
	repo, harness string
	once          sync.Once
	dir           string
	bin           string
	err           error
	mu            sync.Mutex
	counter       int
	race          bool
	files         map[string]string // harness file name → real path (nil: every .go file of the harness directory)
}

func NewNativeRunner(repo, harness string) *NativeRunner {
	return &NativeRunner{repo: repo, harness: harness}
}

func (nr *NativeRunner) build() {
	dir, err := os.MkdirTemp("", "vcheck-native-")
	if err != nil {
		nr.err = err
		return
	}
	nr.dir = dir
	repl := map[string]string{}
	ents, err := os.ReadDir(nr.harness)
	if err != nil {
		nr.err = err
		return
	}
	for _, e := range ents {
		n := e.Name()
		switch {
		case strings.HasSuffix(n, "_test.go.txt"):
			repl[filepath.Join(nr.repo, "zz_verif_"+strings.TrimSuffix(n, ".txt"))] = filepath.Join(nr.harness, n)
		case strings.HasSuffix(n, ".go") && nr.files == nil:
			repl[filepath.Join(nr.repo, "zz_verif_"+n)] = filepath.Join(nr.harness, n)
		}
	}
	for n, p := range nr.files {
		repl[filepath.Join(nr.repo, "zz_verif_"+n)] = p
	}
	ov, _ := json.Marshal(map[string]interface{}{"Replace": repl})
	ovPath := filepath.Join(dir, "overlay.json")
	if err := os.WriteFile(ovPath, ov, 0o644); err != nil {
		nr.err = err
		return
	}
	nr.bin = filepath.Join(dir, "replay.test")
	args := []string{"test", "-c", "-vet=off", "-tags", "verif", "-overlay", ovPath, "-o", nr.bin}
	if nr.race {
		args = append(args, "-race")
	}
	args = append(args, ".")
	cmd := exec.Command("go", args...)
	cmd.Dir = nr.repo
	cmd.Env = append(os.Environ(), "GOFLAGS=-mod=mod", "GOPROXY=off", "GOSUMDB=off", "GOTOOLCHAIN=local", "GOCACHE="+goCacheDir())
	out, err := cmd.CombinedOutput()
	if err != nil {
		nr.err = fmt.Errorf("native build failed: %v\n%s", err, out)
	}
}

func goCacheDir() string {
	if c := os.Getenv("GOCACHE"); c != "" {
		return c
	}
	out, err := exec.Command("go", "env", "GOCACHE").Output()
	if err == nil {
		return strings.TrimSpace(string(out))
	}
	return filepath.Join(os.TempDir(), "go-build")
}

func (nr *NativeRunner) Close() {
	if nr.dir != "" {
		os.RemoveAll(nr.dir)
	}
}

// Run executes the given replay files natively (one process, sequentially).
func (nr *NativeRunner) Run(files []ReplayFile) ([]NativeResult, error) {
	nr.once.Do(nr.build)
	if nr.err != nil {
		return nil, nr.err
	}
	if len(files) == 0 {
		return nil, nil
	}
	nr.mu.Lock()
	base := nr.counter
	nr.counter += len(files)
	nr.mu.Unlock()
	var paths []string
	for i, f := range files {
		p := filepath.Join(nr.dir, fmt.Sprintf("r%06d.json", base+i))
		data, _ := json.Marshal(f)
		if err := os.WriteFile(p, data, 0o644); err != nil {
			return nil, err
		}
		paths = append(paths, p)
	}
	results := make([]NativeResult, len(files))
	idx := map[string]int{}
	for i, p := range paths {
		idx[p] = i
	}
	// a crash (fatal error, os.Exit, timeout) of the process loses the remaining
	// results; run in chunks and retry the tail one by one after a crash
	var runChunk func(ps []string) error
	runChunk = func(ps []string) error {
		cmd := exec.Command(nr.bin, "-test.run", "^TestVerifReplay$", "-test.v", "-test.timeout", "600s")
		cmd.Dir = nr.repo
		cmd.Env = append(os.Environ(), "VERIF_REPLAY="+strings.Join(ps, string(os.PathListSeparator)))
		out, err := cmd.CombinedOutput()
		raceSeen := nr.race && strings.Contains(string(out), "WARNING: DATA RACE")
		sc := bufio.NewScanner(strings.NewReader(string(out)))
		sc.Buffer(make([]byte, 1<<20), 1<<26)
		done := map[string]bool{}
		for sc.Scan() {
			line := sc.Text()
			switch {
			case strings.HasPrefix(line, "VERIF-RESULT file="):
				rest := strings.TrimPrefix(line, "VERIF-RESULT file=")
				sp := strings.IndexByte(rest, ' ')
				if sp < 0 {
					continue
				}
				p := rest[:sp]
				if i, ok := idx[p]; ok {
					results[i].Status = rest[sp+1:]
					if raceSeen && len(ps) == 1 && results[i].Status == "ok" {
						results[i].Status = "race msg=the race detector reported a data race while the harness ran the calls concurrently"
					}
					done[p] = true
				}
			case strings.HasPrefix(line, "VERIF-OBS file="):
				rest := strings.TrimPrefix(line, "VERIF-OBS file=")
				sp := strings.IndexByte(rest, ' ')
				if sp < 0 {
					continue
				}
				if i, ok := idx[rest[:sp]]; ok {
					var obs struct {
						Obs     []string `json:"obs"`
						Reached []string `json:"reached"`
					}
					if json.Unmarshal([]byte(rest[sp+1:]), &obs) == nil {
						results[i].Obs = obs.Obs
						results[i].Reached = obs.Reached
					}
				}
			}
		}
		var missing []string
		for _, p := range ps {
			if !done[p] {
				missing = append(missing, p)
			}
		}
		if len(missing) == 0 {
			return nil
		}
		if len(ps) == 1 {
			msg := "process crashed"
			if err != nil {
				msg += ": " + err.Error()
			}
			tail := string(out)
			if len(tail) > 600 {
				tail = tail[len(tail)-600:]
			}
			results[idx[ps[0]]].Status = "crash msg=" + msg + " | " + strings.ReplaceAll(tail, "\n", " ⏎ ")
			return nil
		}
		// the first missing one is the culprit (or the crash lost it); run each alone
		for _, p := range missing {
			if e := runChunk([]string{p}); e != nil {
				return e
			}
		}
		return nil
	}
	chunk := 400
	if nr.race {
		chunk = 1
	}
	for i := 0; i < len(paths); i += chunk {
		j := i + chunk
		if j > len(paths) {
			j = len(paths)
		}
		if err := runChunk(paths[i:j]); err != nil {
			return nil, err
		}
	}
	for _, p := range paths {
		os.Remove(p)
	}
	return results, nil
}
