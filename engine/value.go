package main

// Value representation of the symbolic executor. Derived from the boxed value
// model of golang.org/x/tools/go/ssa/interp (BSD licence, see LICENSE.x-tools)
// and extended with symbolic scalars (*Term), symbolic strings (sstr),
// association-list maps that admit symbolic keys (mapV) and modelled channels.
//
// Dynamic types inside value:
//   bool, int..uint64, uintptr, float32/64, complex, string   concrete scalars
//   *Term                         symbolic scalar (Bool / BitVec / Int sort)
//   sstr                          string with at least one symbolic byte
//   *mapV, *chanV, []value        maps, channels, slices
//   iface, structure, array, tuple, *value (pointer)
//   *ssa.Function, *ssa.Builtin, *closure, *nativeFn    function values
//   iter                          range iterators

import (
	"bytes"
	"fmt"
	"go/types"
	"unicode/utf8"

	"golang.org/x/tools/go/ssa"
)

type value interface{}

type tuple []value

type array []value

type iface struct {
	t types.Type // never an "untyped" type
	v value
}

type structure []value

type iter interface {
	next() tuple
}

type closure struct {
	Fn  *ssa.Function
	Env []value
}

// nativeFn is a function value implemented by the executor itself.
type nativeFn struct {
	name string
	fn   func(fr *frame, args []value) value
}

type bad struct{}

// sstr is a string of concrete length whose bytes may be symbolic.
// Each element is a uint8 or a *Term of sort (_ BitVec 8).
type sstr struct {
	b []value
}

func (s sstr) concrete() (string, bool) {
	buf := make([]byte, len(s.b))
	for i, x := range s.b {
		c, ok := x.(uint8)
		if !ok {
			return "", false
		}
		buf[i] = c
	}
	return string(buf), true
}

// strBytes returns the byte atoms of a string value (string or sstr).
func strBytes(v value) []value {
	switch s := v.(type) {
	case string:
		out := make([]value, len(s))
		for i := 0; i < len(s); i++ {
			out[i] = s[i]
		}
		return out
	case sstr:
		return s.b
	}
	panic(fmt.Sprintf("strBytes: not a string: %T", v))
}

// mkStr builds the canonical string value for a byte-atom sequence.
func mkStr(b []value) value {
	s := sstr{b: b}
	if c, ok := s.concrete(); ok {
		return c
	}
	return s
}

func strLen(v value) int {
	switch s := v.(type) {
	case string:
		return len(s)
	case sstr:
		return len(s.b)
	}
	panic(fmt.Sprintf("strLen: not a string: %T", v))
}

func isSym(v value) bool {
	switch v.(type) {
	case *Term, sstr:
		return true
	}
	return false
}

// ---------------------------------------------------------------------------
// maps

type mapEntry struct {
	k, v value
}

// mapV is an insertion-ordered association list. Concrete keys of basic types
// are indexed; symbolic keys are appended without forking (later entries
// shadow earlier ones on lookup).
type mapV struct {
	keyT   types.Type
	elemT  types.Type
	ents   []mapEntry
	idx    map[value]int
	symKey bool // some key is symbolic (entries may be duplicates of each other)
}

func newMapV(kt, et types.Type) *mapV {
	return &mapV{keyT: kt, elemT: et, idx: make(map[value]int)}
}

func basicKey(k value) bool {
	switch k.(type) {
	case bool, int, int8, int16, int32, int64, uint, uint8, uint16, uint32, uint64, uintptr, float32, float64, string, *value, *chanV:
		return true
	}
	return false
}

func (m *mapV) length() int {
	if m == nil {
		return 0
	}
	return len(m.ents)
}

// ---------------------------------------------------------------------------
// channels (modelled as bounded FIFOs; the executor is single-threaded)

type chanV struct {
	buf    []value
	cap    int
	closed bool
}

// ---------------------------------------------------------------------------
// iterators

type stringIter struct {
	m   *Machine
	b   []value
	pos int
}

func (it *stringIter) next() tuple {
	okv := make(tuple, 3)
	if it.pos >= len(it.b) {
		okv[0] = false
		return okv
	}
	r, n := it.m.decodeRune(it.b[it.pos:])
	okv[0] = true
	okv[1] = it.pos
	okv[2] = r
	it.pos += n
	return okv
}

type mapIter struct {
	m    *mapV
	ents []mapEntry
	pos  int
}

func (it *mapIter) next() tuple {
	for it.pos < len(it.ents) {
		e := it.ents[it.pos]
		it.pos++
		// skip entries deleted since the iterator was created
		if it.m != nil && basicKey(e.k) && !it.m.symKey {
			if _, ok := it.m.idx[e.k]; !ok {
				continue
			}
		}
		return tuple{true, e.k, e.v}
	}
	return tuple{false, nil, nil}
}

// ---------------------------------------------------------------------------
// load / store with struct and array value semantics

func load(T types.Type, addr *value) value {
	switch T := T.Underlying().(type) {
	case *types.Struct:
		v := (*addr).(structure)
		a := make(structure, len(v))
		for i := range a {
			a[i] = load(T.Field(i).Type(), &v[i])
		}
		return a
	case *types.Array:
		v := (*addr).(array)
		a := make(array, len(v))
		for i := range a {
			a[i] = load(T.Elem(), &v[i])
		}
		return a
	default:
		return *addr
	}
}

// copyVal makes an unaliased copy of struct/array values.
func copyVal(v value) value {
	switch v := v.(type) {
	case structure:
		a := make(structure, len(v))
		for i := range v {
			a[i] = copyVal(v[i])
		}
		return a
	case array:
		a := make(array, len(v))
		for i := range v {
			a[i] = copyVal(v[i])
		}
		return a
	}
	return v
}

// ---------------------------------------------------------------------------
// printing (diagnostics)

func writeValue(buf *bytes.Buffer, v value, depth int) {
	if depth > 4 {
		buf.WriteString("…")
		return
	}
	switch v := v.(type) {
	case nil, bool, int, int8, int16, int32, int64, uint, uint8, uint16, uint32, uint64, uintptr, float32, float64, complex64, complex128:
		fmt.Fprintf(buf, "%v", v)
	case string:
		fmt.Fprintf(buf, "%q", v)
	case *Term:
		buf.WriteString(v.String())
	case sstr:
		buf.WriteString("sstr[")
		for i, x := range v.b {
			if i > 0 {
				buf.WriteByte(' ')
			}
			writeValue(buf, x, depth+1)
		}
		buf.WriteString("]")
	case *mapV:
		buf.WriteString("map[")
		if v != nil {
			for i, e := range v.ents {
				if i > 0 {
					buf.WriteByte(' ')
				}
				writeValue(buf, e.k, depth+1)
				buf.WriteString(":")
				writeValue(buf, e.v, depth+1)
			}
		}
		buf.WriteString("]")
	case *chanV:
		fmt.Fprintf(buf, "chan(%p)", v)
	case *value:
		if v == nil {
			buf.WriteString("<nil>")
		} else {
			fmt.Fprintf(buf, "&")
			writeValue(buf, *v, depth+1)
		}
	case iface:
		if v.t == nil {
			buf.WriteString("<nil>")
			return
		}
		fmt.Fprintf(buf, "(%s)", v.t)
		writeValue(buf, v.v, depth+1)
	case structure:
		buf.WriteString("{")
		for i, e := range v {
			if i > 0 {
				buf.WriteString(" ")
			}
			writeValue(buf, e, depth+1)
		}
		buf.WriteString("}")
	case array:
		buf.WriteString("[")
		for i, e := range v {
			if i > 0 {
				buf.WriteString(" ")
			}
			writeValue(buf, e, depth+1)
		}
		buf.WriteString("]")
	case []value:
		buf.WriteString("[")
		for i, e := range v {
			if i > 0 {
				buf.WriteString(" ")
			}
			if i > 16 {
				buf.WriteString("…")
				break
			}
			writeValue(buf, e, depth+1)
		}
		buf.WriteString("]")
	case *ssa.Function:
		if v == nil {
			buf.WriteString("func(nil)")
		} else {
			buf.WriteString("func:" + v.String())
		}
	case *ssa.Builtin:
		buf.WriteString("builtin:" + v.Name())
	case *closure:
		buf.WriteString("closure:" + v.Fn.String())
	case *nativeFn:
		buf.WriteString("native:" + v.name)
	case tuple:
		buf.WriteString("(")
		for i, e := range v {
			if i > 0 {
				buf.WriteString(", ")
			}
			writeValue(buf, e, depth+1)
		}
		buf.WriteString(")")
	default:
		fmt.Fprintf(buf, "<%T>", v)
	}
}

func toString(v value) string {
	var b bytes.Buffer
	writeValue(&b, v, 0)
	return b.String()
}

// sameType is a nil-tolerant variant of types.Identical.
func sameType(x, y types.Type) bool {
	if x == nil {
		return y == nil
	}
	return y != nil && types.Identical(x, y)
}

func mustDeref(t types.Type) types.Type {
	if p, ok := t.Underlying().(*types.Pointer); ok {
		return p.Elem()
	}
	panic(fmt.Sprintf("mustDeref: not a pointer: %v", t))
}

func encodeRune(r rune) []value {
	var buf [4]byte
	n := utf8.EncodeRune(buf[:], r)
	out := make([]value, n)
	for i := 0; i < n; i++ {
		out[i] = buf[i]
	}
	return out
}
