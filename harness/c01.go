//go:build verif

package eval

func init() {
	vfRegister("VerifC01", VerifC01)
}

// VerifC01: args = [source, registration mode, fault mode]. Optimisations off.
// Fault mode: "v" all fetches succeed with arbitrary values of the right type;
// "f" variables may in addition be unbound (the fetch fails with that
// variable's own sentinel) and custom operators may fail; "w" variables may
// hold a value of the wrong type. Eval must return exactly what the documented
// left-to-right short-circuit semantics returns.
func VerifC01(args []string) {
	src, reg, mode := args[0], args[1], args[2]
	tree, ok := refRead(src)
	vfAssert(ok, "harness: skeleton readable by the reference reader")
	w := newWorld(tree, "")
	w.mayFail, w.mayWrong, w.opsFail = mode == "f", mode == "w", mode == "f"
	conf := w.config(reg, "0000")
	e, err := Compile(conf, src)
	vfAssert(err == nil && e != nil, "well-formed expression compiles")

	got, gerr := e.Eval(&Ctx{VariableFetcher: &vfFetcher{w: w}})
	want, werr := w.refEval(tree)

	vfAssert((gerr == nil) == (werr == nil), "Eval fails exactly when the documented evaluation fails")
	if werr == nil {
		vfReach("value")
		vfAssert(got == want, "Eval returns the documented value")
	} else if werr != errRefBuiltin {
		vfReach("sentinel")
		vfAssert(gerr == werr, "the fetcher's / operator's own error is returned unchanged")
	} else {
		vfReach("builtin-error")
	}

	// EvalBool agrees and rejects non-boolean results
	b, berr := e.EvalBool(&Ctx{VariableFetcher: &vfFetcher{w: w}})
	if werr == nil {
		wb, isBool := want.(bool)
		if isBool {
			vfAssert(berr == nil && b == wb, "EvalBool returns the boolean result")
		} else {
			vfReach("evalbool-nonbool")
			vfAssert(berr != nil, "EvalBool rejects a non-boolean result")
		}
	} else {
		vfAssert(berr != nil, "EvalBool fails when Eval fails")
	}
}

func init() {
	vfRegister("VerifC01Literal", VerifC01Literal)
}

// VerifC01Literal: args = [skeleton, context]. An integer literal written with an optional
// minus sign and decimal digits (d = an arbitrary digit, other characters as they are) denotes
// its decimal value, wherever it is written: as an operand, inside a list literal, in infix
// notation.
func VerifC01Literal(args []string) {
	sk, where := args[0], args[1]
	var runes []rune
	val := int64(0)
	neg := false
	n := 0
	for i := 0; i < len(sk); i++ {
		c := rune(sk[i])
		if c == '-' {
			neg = true
			runes = append(runes, c)
			continue
		}
		if c == 'd' {
			c = vfRune("lit." + string(rune('0'+n)))
			n++
			vfAssume(c >= '0' && c <= '9')
		}
		runes = append(runes, c)
		val = val*10 + int64(c-'0')
	}
	if neg {
		val = -val
	}
	lit := string(runes)
	x := vfInt64("x")
	conf := NewConfig(Optimizations(false))
	conf.VariableKeyMap["x"] = 1
	var src string
	var want Value
	switch where {
	case "operand":
		src, want = "(+ "+lit+" x)", val+x
	case "only":
		src, want = "(+ "+lit+" 0)", val
	case "list":
		src, want = "(in x ("+lit+" 5))", x == val || x == 5
	case "infix":
		conf.CompileOptions[InfixNotation] = true
		src, want = "x + "+lit+" * 2", x+val*2
	case "infix-list":
		conf.CompileOptions[InfixNotation] = true
		src, want = "in(x, ["+lit+" 5])", x == val || x == 5
	case "folded":
		conf = NewConfig()
		conf.VariableKeyMap["x"] = 1
		src, want = "(+ x (- "+lit+" 1))", x+(val-1)
	}
	e, err := Compile(conf, src)
	vfAssert(err == nil && e != nil, "an expression with a decimal integer literal compiles")
	got, gerr := e.Eval(&Ctx{VariableFetcher: MapVarFetcher(map[string]Value{"x": x})})
	vfReach("literal")
	vfAssert(gerr == nil, "an expression with a decimal integer literal evaluates")
	vfAssert(got == want, "an integer literal does not denote its decimal value")
}
