//go:build verif

package eval

func init() {
	vfRegister("VerifC01", VerifC01)
}

// VerifC01: args = [source, registration mode, fault mode]. Optimisations off.
// Fault mode: "v" all fetches succeed with arbitrary values of the right type;
// "f" variables may in addition be unbound (the fetch fails with that
// variable's own sentinel) and custom operators may fail; "w" variables may
// hold a value of the wrong type. Eval must return exactly what the documented
// left-to-right short-circuit semantics returns.
func VerifC01(args []string) {
	src, reg, mode := args[0], args[1], args[2]
	tree, ok := refRead(src)
	vfAssert(ok, "harness: skeleton readable by the reference reader")
	w := newWorld(tree, "")
	w.mayFail, w.mayWrong, w.opsFail = mode == "f", mode == "w", mode == "f"
	conf := w.config(reg, "0000")
	e, err := Compile(conf, src)
	vfAssert(err == nil && e != nil, "well-formed expression compiles")

	got, gerr := e.Eval(&Ctx{VariableFetcher: &vfFetcher{w: w}})
	want, werr := w.refEval(tree)

	vfAssert((gerr == nil) == (werr == nil), "Eval fails exactly when the documented evaluation fails")
	if werr == nil {
		vfReach("value")
		vfAssert(got == want, "Eval returns the documented value")
	} else if werr != errRefBuiltin {
		vfReach("sentinel")
		vfAssert(gerr == werr, "the fetcher's / operator's own error is returned unchanged")
	} else {
		vfReach("builtin-error")
	}

	// EvalBool agrees and rejects non-boolean results
	b, berr := e.EvalBool(&Ctx{VariableFetcher: &vfFetcher{w: w}})
	if werr == nil {
		wb, isBool := want.(bool)
		if isBool {
			vfAssert(berr == nil && b == wb, "EvalBool returns the boolean result")
		} else {
			vfReach("evalbool-nonbool")
			vfAssert(berr != nil, "EvalBool rejects a non-boolean result")
		}
	} else {
		vfAssert(berr != nil, "EvalBool fails when Eval fails")
	}
}
