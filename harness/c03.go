//go:build verif

package eval

func init() {
	vfRegister("VerifC03", VerifC03)
}

// VerifC03: args = [source, fault mode]. For each of the 16 optimisation
// subsets the sequence of variable fetches and registered-operator calls made
// by Eval must be exactly the sequence that left-to-right short-circuit
// evaluation of the optimised form (the tree Dump shows) makes; when
// FastEvaluation is on, a two-leaf and/or may fetch both leaves.
func VerifC03(args []string) {
	src, mode := args[0], args[1]
	tree, ok := refRead(src)
	vfAssert(ok, "harness: skeleton readable by the reference reader")
	w := newWorld(tree, "")
	w.mayFail = mode == "f"
	w.opsFail = true
	w.logOn = true
	for _, opts := range vfAllOpts {
		conf := w.config(vfRegOf(args), opts)
		e, err := Compile(conf, src)
		vfAssert(err == nil && e != nil, "well-formed expression compiles under "+opts)
		otree, ok := refRead(Dump(e))
		vfAssert(ok, "Dump output readable by the reference reader under "+opts)
		if opts == "0000" {
			vfAssert(w.treeEq(tree, otree), "with all optimisations off Dump shows the source tree")
		}

		w.log = nil
		got, gerr := e.Eval(&Ctx{VariableFetcher: &vfFetcher{w: w}})
		implLog := w.log

		w.log = nil
		w.relaxFast = false
		want, werr := w.refEval(otree)
		strictLog := w.log

		same := vfLogEq(implLog, strictLog)
		if opts[2] == '1' {
			w.log = nil
			w.relaxFast = true
			w.refEval(otree)
			relaxedLog := w.log
			w.relaxFast = false
			same = same || vfLogEq(implLog, relaxedLog)
		}
		w.log = nil
		vfReach("trace")
		vfAssert(same, "fetches / operator calls differ from short-circuit evaluation of the optimised tree under "+opts)
		// the optimised tree's own meaning is what Eval returns (keeps the oracle honest);
		// not asserted where the permitted double fetch of a fast and/or can itself fail
		if opts[2] == '1' && mode == "f" {
			continue
		}
		vfAssert((gerr == nil) == (werr == nil), "Eval and the reference on the Dump tree fail together under "+opts)
		if gerr == nil {
			vfAssert(got == want, "Eval returns the value of the Dump tree under "+opts)
		}
	}
}
