//go:build verif

package eval

import (
	"sort"
	"strconv"
	"strings"
)

func init() {
	vfRegister("VerifC18", VerifC18)
	vfRegister("VerifOpNames", VerifOpNames)
}

// VerifOpNames lets the driver read the real operator table, so that aliases
// added to it are picked up without touching the harness.
func VerifOpNames(args []string) {
	var names []string
	for _, k := range vfBuiltinNames() {
		names = append(names, k)
	}
	sort.Strings(names)
	vfObserve("ops", strings.Join(names, " "))
}

// vfTyped builds one operand: i = arbitrary int64, b = arbitrary bool,
// s / t = two distinct strings, l = int list, L = string list, n = nil.
func vfTyped(tag byte, name string) Value {
	switch tag {
	case 'i':
		return vfInt64(name)
	case 'b':
		return vfBool(name)
	case 's':
		return "s"
	case 't':
		return "t"
	case 'l':
		return []int64{1, 2}
	case 'L':
		return []string{"a"}
	}
	return nil
}

// VerifC18: args = [operator name, operand tags]. One operator application of
// the real table entry on symbolic operands against the reference algebra.
func VerifC18(args []string) {
	name, tags := args[0], args[1]
	op, ok := vfBuiltin(name)
	vfAssert(ok && op != nil, "operator present in table")
	n := len(tags)
	params := make([]Value, n)
	saved := make([]Value, n)
	for i := 0; i < n; i++ {
		params[i] = vfTyped(tags[i], "p"+strconv.Itoa(i))
		saved[i] = params[i]
	}
	got, err := op(nil, params)
	want, fails, known := refOp(name, saved)
	if known {
		vfReach("modelled")
		vfAssert((err != nil) == fails, "error exactly when the algebra has no value")
		if !fails {
			vfReach("value")
			vfAssert(got == want, "value equals the reference algebra")
		}
	}
	// every alias behaves like its named form
	canon := refCanon(name)
	if canon != name {
		cop, cok := vfBuiltin(canon)
		vfAssert(cok && cop != nil, "canonical operator present")
		p2 := make([]Value, n)
		copy(p2, saved)
		g2, e2 := cop(nil, p2)
		vfReach("alias")
		vfAssert((err == nil) == (e2 == nil), "alias and named form fail together")
		if err == nil {
			vfAssert(got == g2, "alias and named form agree")
		}
	}
	// negation pairs
	var dual string
	switch canon {
	case "ne":
		dual = "eq"
	case "le":
		dual = "gt"
	case "ge":
		dual = "lt"
	}
	if dual != "" && n == 2 {
		p3 := make([]Value, n)
		copy(p3, saved)
		g3, e3 := vfBuiltinCall(dual, p3)
		vfAssert((err == nil) == (e3 == nil), "dual operators fail together")
		if err == nil {
			vfReach("dual")
			gb, ok1 := got.(bool)
			db, ok2 := g3.(bool)
			vfAssert(ok1 && ok2 && gb == !db, canon+" is the negation of "+dual)
		}
	}
}
