//go:build verif

package eval

// Reference models (oracles) shared by the property harnesses. They are written
// directly from the documented semantics and are independent of parser.go /
// engine.go / operator.go: their only contact with the code under test is the
// Value type.

import (
	"errors"
	"strconv"
)

// ---------------------------------------------------------------------------
// S-expression reader (prefix notation, no escapes in strings)

type refNode struct {
	op    string     // operator / keyword name for inner nodes
	kids  []*refNode // operands
	leaf  bool
	atom  string // leaf: identifier text, or literal text
	lit   Value  // leaf: literal value (int64, string, bool, []int64, []string) when isLit
	isLit bool
}

type refReader struct {
	s   []rune
	pos int
	err bool
}

func (r *refReader) skip() {
	for r.pos < len(r.s) {
		c := r.s[r.pos]
		if c == ' ' || c == '\n' || c == '\t' || c == '\r' {
			r.pos++
			continue
		}
		if c == ';' {
			for r.pos < len(r.s) && r.s[r.pos] != '\n' {
				r.pos++
			}
			continue
		}
		break
	}
}

func (r *refReader) token() string {
	start := r.pos
	for r.pos < len(r.s) {
		c := r.s[r.pos]
		if c == ' ' || c == '\n' || c == '\t' || c == '\r' || c == '(' || c == ')' || c == ';' {
			break
		}
		r.pos++
	}
	return string(r.s[start:r.pos])
}

func refIsInt(t string) bool {
	if t == "" {
		return false
	}
	i := 0
	if t[0] == '-' || t[0] == '+' {
		i = 1
	}
	if i == len(t) {
		return false
	}
	for ; i < len(t); i++ {
		if t[i] < '0' || t[i] > '9' {
			return false
		}
	}
	return true
}

func (r *refReader) read() *refNode {
	r.skip()
	if r.pos >= len(r.s) {
		r.err = true
		return nil
	}
	c := r.s[r.pos]
	if c == '"' {
		start := r.pos + 1
		r.pos++
		for r.pos < len(r.s) && r.s[r.pos] != '"' {
			r.pos++
		}
		if r.pos >= len(r.s) {
			r.err = true
			return nil
		}
		v := string(r.s[start:r.pos])
		r.pos++
		return &refNode{leaf: true, isLit: true, lit: v, atom: v}
	}
	if c == ')' {
		r.err = true
		return nil
	}
	if c != '(' {
		t := r.token()
		if refIsInt(t) {
			v, err := strconv.ParseInt(t, 10, 64)
			if err != nil {
				r.err = true
				return nil
			}
			return &refNode{leaf: true, isLit: true, lit: v, atom: t}
		}
		if t == "true" {
			return &refNode{leaf: true, isLit: true, lit: true, atom: t}
		}
		if t == "false" {
			return &refNode{leaf: true, isLit: true, lit: false, atom: t}
		}
		return &refNode{leaf: true, atom: t}
	}
	// '(' : list literal or application
	r.pos++
	r.skip()
	if r.pos >= len(r.s) {
		r.err = true
		return nil
	}
	if r.s[r.pos] == ')' {
		r.pos++
		return &refNode{leaf: true, isLit: true, lit: []string{}, atom: "()"}
	}
	first := r.read()
	if r.err {
		return nil
	}
	if first.leaf && first.isLit {
		// list literal: all elements of the first element's kind
		switch fv := first.lit.(type) {
		case int64:
			out := []int64{fv}
			for {
				r.skip()
				if r.pos >= len(r.s) {
					r.err = true
					return nil
				}
				if r.s[r.pos] == ')' {
					r.pos++
					return &refNode{leaf: true, isLit: true, lit: out, atom: "(ints)"}
				}
				e := r.read()
				if r.err {
					return nil
				}
				iv, ok := e.lit.(int64)
				if !e.leaf || !e.isLit || !ok {
					r.err = true
					return nil
				}
				out = append(out, iv)
			}
		case string:
			out := []string{fv}
			for {
				r.skip()
				if r.pos >= len(r.s) {
					r.err = true
					return nil
				}
				if r.s[r.pos] == ')' {
					r.pos++
					return &refNode{leaf: true, isLit: true, lit: out, atom: "(strs)"}
				}
				e := r.read()
				if r.err {
					return nil
				}
				sv, ok := e.lit.(string)
				if !e.leaf || !e.isLit || !ok {
					r.err = true
					return nil
				}
				out = append(out, sv)
			}
		}
		r.err = true
		return nil
	}
	if !first.leaf {
		r.err = true
		return nil
	}
	n := &refNode{op: first.atom}
	for {
		r.skip()
		if r.pos >= len(r.s) {
			r.err = true
			return nil
		}
		if r.s[r.pos] == ')' {
			r.pos++
			return n
		}
		k := r.read()
		if r.err {
			return nil
		}
		n.kids = append(n.kids, k)
	}
}

// refRead parses src; ok is false for anything outside the simple grammar.
func refRead(src string) (*refNode, bool) {
	r := &refReader{s: []rune(src)}
	n := r.read()
	if r.err || n == nil {
		return nil, false
	}
	r.skip()
	if r.pos != len(r.s) {
		return nil, false
	}
	return n, true
}

func refLeaves(n *refNode, out *[]*refNode) {
	if n.leaf {
		*out = append(*out, n)
		return
	}
	for _, k := range n.kids {
		refLeaves(k, out)
	}
}

func refSize(n *refNode) int {
	s := 1
	for _, k := range n.kids {
		s += refSize(k)
	}
	return s
}

// ---------------------------------------------------------------------------
// Operator semantics, written from the documentation

var errRefBuiltin = errors.New("reference: built-in operator fails")

// refCanon maps every documented alias to its canonical operator name.
func refCanon(op string) string {
	switch op {
	case "+":
		return "add"
	case "-":
		return "sub"
	case "*":
		return "mul"
	case "/":
		return "div"
	case "%":
		return "mod"
	case "&", "&&":
		return "and"
	case "|", "||":
		return "or"
	case "!":
		return "not"
	case "=", "==":
		return "eq"
	case "!=":
		return "ne"
	case ">":
		return "gt"
	case "<":
		return "lt"
	case ">=":
		return "ge"
	case "<=":
		return "le"
	}
	return op
}

func refIsAnd(op string) bool { return refCanon(op) == "and" }
func refIsOr(op string) bool  { return refCanon(op) == "or" }

// refComparable says whether Go's == is defined on the dynamic type of v
// (the engine's eq/ne use it; lists and sets are not comparable).
func refComparable(v Value) bool {
	switch v.(type) {
	case nil, bool, int64, string, int:
		return true
	case []int64, []string, map[int64]struct{}, map[string]struct{}:
		return false
	}
	return v == Value(DNE) // the DNE sentinel is comparable
}

// refOp applies a scalar built-in operator. known=false means the reference
// has no model for this operator (lists, time, version: other properties).
func refOp(name string, a []Value) (res Value, fails bool, known bool) {
	op := refCanon(name)
	switch op {
	case "add", "sub", "mul", "div", "mod":
		if len(a) < 2 {
			return nil, true, true
		}
		var acc int64
		for i, p := range a {
			v, ok := p.(int64)
			if !ok {
				return nil, true, true
			}
			if i == 0 {
				acc = v
				continue
			}
			switch op {
			case "add":
				acc = acc + v
			case "sub":
				acc = acc - v
			case "mul":
				acc = acc * v
			case "div":
				if v == 0 {
					return nil, true, true
				}
				acc = acc / v
			case "mod":
				if v == 0 {
					return nil, true, true
				}
				acc = acc % v
			}
		}
		return acc, false, true
	case "and", "or", "xor":
		if len(a) < 2 {
			return nil, true, true
		}
		var acc bool
		for i, p := range a {
			v, ok := p.(bool)
			if !ok {
				return nil, true, true
			}
			if i == 0 {
				acc = v
				continue
			}
			switch op {
			case "and":
				acc = acc && v
			case "or":
				acc = acc || v
			case "xor":
				acc = acc != v
			}
		}
		return acc, false, true
	case "not":
		if len(a) != 1 {
			return nil, true, true
		}
		v, ok := a[0].(bool)
		if !ok {
			return nil, true, true
		}
		return !v, false, true
	case "gt", "lt", "ge", "le":
		if len(a) != 2 {
			return nil, true, true
		}
		x, ok1 := a[0].(int64)
		y, ok2 := a[1].(int64)
		if !ok1 || !ok2 {
			return nil, true, true
		}
		switch op {
		case "gt":
			return x > y, false, true
		case "lt":
			return x < y, false, true
		case "ge":
			return x >= y, false, true
		}
		return x <= y, false, true
	case "eq":
		if len(a) < 2 {
			return nil, true, true
		}
		for _, p := range a {
			if !refComparable(p) {
				return nil, false, false // outside the scalar domain of this model
			}
		}
		for _, p := range a[1:] {
			if a[0] != p {
				return false, false, true
			}
		}
		return true, false, true
	case "ne":
		if len(a) != 2 {
			return nil, true, true
		}
		if !refComparable(a[0]) || !refComparable(a[1]) {
			return nil, false, false
		}
		return a[0] != a[1], false, true
	case "in":
		if len(a) != 2 {
			return nil, true, true
		}
		switch v := a[0].(type) {
		case int64:
			switch l := a[1].(type) {
			case []int64:
				found := false
				for _, x := range l {
					found = found || x == v
				}
				return found, false, true
			case []string:
				if len(l) == 0 {
					return false, false, true
				}
			}
			return nil, true, true
		case string:
			if l, ok := a[1].([]string); ok {
				found := false
				for _, x := range l {
					found = found || x == v
				}
				return found, false, true
			}
			return nil, true, true
		}
		return nil, true, true
	case "overlap":
		if len(a) != 2 {
			return nil, true, true
		}
		switch x := a[0].(type) {
		case []int64:
			switch y := a[1].(type) {
			case []int64:
				found := false
				for _, p := range x {
					for _, q := range y {
						found = found || p == q
					}
				}
				return found, false, true
			case []string:
				if len(y) == 0 {
					return false, false, true
				}
			}
			return nil, true, true
		case []string:
			switch y := a[1].(type) {
			case []string:
				found := false
				for _, p := range x {
					for _, q := range y {
						found = found || p == q
					}
				}
				return found, false, true
			case []int64:
				if len(x) == 0 {
					return false, false, true
				}
			}
			return nil, true, true
		}
		return nil, true, true
	case "between":
		if len(a) != 3 {
			return nil, true, true
		}
		v, ok0 := a[0].(int64)
		lo, ok1 := a[1].(int64)
		hi, ok2 := a[2].(int64)
		if !ok0 || !ok1 || !ok2 {
			return nil, true, true
		}
		return lo <= v && v <= hi, false, true
	}
	return nil, false, false
}
