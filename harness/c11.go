//go:build verif

package eval

import (
	"strconv"
	"time"
)

func init() {
	vfRegister("VerifC11Keys", VerifC11Keys)
	vfRegister("VerifC11Layout", VerifC11Layout)
}

// VerifC11Keys: args = [n pre-registered names, registration script]. The key
// map starts with n names bound to arbitrary pairwise distinct int16 keys; the
// script is a string over 'n' (register a new name) and 'e' (re-register an
// existing name). GetOrRegisterKey must return the stored key, never change an
// existing assignment, never give one key to two names, and be idempotent.
func VerifC11Keys(args []string) {
	n, _ := strconv.Atoi(args[0])
	script := args[1]
	conf := NewConfig()
	names := []string{}
	keys := map[string]VariableKey{}
	for i := 0; i < n; i++ {
		name := "pre" + strconv.Itoa(i)
		k := VariableKey(vfInt16("key." + name))
		for _, other := range names {
			vfAssume(keys[other] != k)
		}
		names = append(names, name)
		keys[name] = k
		conf.VariableKeyMap[name] = k
	}
	fresh := 0
	for _, step := range script {
		var name string
		isNew := step == 'n'
		if isNew {
			name = "new" + strconv.Itoa(fresh)
			fresh++
		} else {
			if len(names) == 0 {
				continue
			}
			name = names[(fresh+len(names)-1)%len(names)]
		}
		got := GetOrRegisterKey(conf, name)
		stored, present := conf.VariableKeyMap[name]
		vfAssert(present && stored == got, "GetOrRegisterKey returns another key than it stored")
		if !isNew {
			vfReach("existing")
			vfAssert(got == keys[name], "GetOrRegisterKey changed the key of an existing name")
		} else {
			vfReach("new")
			for _, other := range names {
				vfAssert(keys[other] != got, "GetOrRegisterKey gave a key that another name already has")
			}
			names = append(names, name)
			keys[name] = got
		}
		// nothing else moved
		vfAssert(len(conf.VariableKeyMap) == len(names), "GetOrRegisterKey changed the number of registered names")
		for _, other := range names {
			vfAssert(conf.VariableKeyMap[other] == keys[other], "GetOrRegisterKey changed another name's key")
		}
		// idempotent
		vfAssert(GetOrRegisterKey(conf, name) == got, "GetOrRegisterKey is not idempotent")
	}
}

// vfC11Value builds the binding of one variable: a Go value of the requested
// kind carrying arbitrary data, and its documented normalisation.
func vfC11Value(kind string, name string) (interface{}, Value) {
	x := vfInt64("x." + name)
	switch kind {
	case "int":
		return int(x), int64(int(x))
	case "int8":
		return int8(x), int64(int8(x))
	case "int16":
		return int16(x), int64(int16(x))
	case "int32":
		return int32(x), int64(int32(x))
	case "int64":
		return x, x
	case "uint8":
		return uint8(x), int64(uint8(x))
	case "uint16":
		return uint16(x), int64(uint16(x))
	case "uint32":
		return uint32(x), int64(uint32(x))
	case "uint64":
		return uint64(x), int64(uint64(x))
	case "bool":
		b := vfBool("b." + name)
		return b, b
	case "string":
		return "str-" + name, "str-" + name
	case "time":
		return time.Unix(x, 0), x
	case "duration":
		return time.Duration(x), x / 1000000000
	case "ints":
		y := vfInt64("y." + name)
		return []int{int(x), int(y)}, []int64{x, y}
	case "int32s":
		y := vfInt64("y." + name)
		return []int32{int32(x), int32(y)}, []int64{int64(int32(x)), int64(int32(y))}
	case "ints0":
		return []int{}, []int64{} // an empty list is normalised like any other
	case "int32s0":
		return []int32{}, []int64{}
	case "ints1":
		return []int{int(x)}, []int64{x}
	case "int64s":
		return []int64{x}, []int64{x}
	case "strs":
		return []string{"a", name}, []string{"a", name}
	}
	return nil, nil
}

func vfValueEq(a, b Value) bool {
	switch av := a.(type) {
	case []int64:
		bv, ok := b.([]int64)
		if !ok || len(av) != len(bv) {
			return false
		}
		eq := true
		for i := range av {
			eq = eq && av[i] == bv[i]
		}
		return eq
	case []string:
		bv, ok := b.([]string)
		if !ok || len(av) != len(bv) {
			return false
		}
		for i := range av {
			if av[i] != bv[i] {
				return false
			}
		}
		return true
	}
	return a == b
}

// VerifC11Layout: args = [layout, kinds (comma separated, one per variable)].
// The program (tuple v0 v1 v2) is compiled and evaluated through the real
// NewCtxFromVars under the given key layout; element i must be the documented
// normalisation of the value bound to v_i.
//
//	layout "explicit:k0,k1,k2"  concrete explicit keys (both sides of the slice/map fetcher boundary)
//	       "symbolic-map"       arbitrary distinct keys outside 0..255 in at least one position (map fetcher)
//	       "hist:range:pre:ops" a pre-populated key map with arbitrary keys, then RegVarAndOp / GetOrRegisterKey
//	       "register:perm"      GetOrRegisterKey in the order given by perm (e.g. 201)
//	       "regvarandop"        RegVarAndOp over the bindings, every map iteration order
//	       "undefined"          AllowUndefinedVariable, nothing registered
//	       "evalfunc"           the package-level Eval convenience function
func VerifC11Layout(args []string) {
	layout := args[0]
	kinds := vfSplit(args[1], ',')
	names := []string{"v0", "v1", "v2"}[:len(kinds)]
	vals := map[string]interface{}{}
	want := make([]Value, len(names))
	for i, name := range names {
		vals[name], want[i] = vfC11Value(kinds[i], name)
	}
	tuple := func(_ *Ctx, ps []Value) (Value, error) {
		out := make([]Value, len(ps))
		copy(out, ps)
		return out, nil
	}
	src := "(tuple"
	for _, name := range names {
		src += " " + name
	}
	src += ")"
	var res Value
	var err error
	if layout == "evalfunc" {
		all := map[string]interface{}{"tuple": tuple}
		for k, v := range vals {
			all[k] = v
		}
		vfMapOrder(true)
		res, err = Eval(src, all)
		vfMapOrder(false)
	} else {
		conf := NewConfig()
		conf.OperatorMap["tuple"] = tuple
		switch {
		case len(layout) > 9 && layout[:9] == "explicit:":
			ks := vfSplit(layout[9:], ',')
			for i, name := range names {
				k, _ := strconv.Atoi(ks[i])
				conf.VariableKeyMap[name] = VariableKey(k)
			}
		case layout == "symbolic-map":
			var ks []VariableKey
			outside := false
			for _, name := range names {
				k := VariableKey(vfInt16("key." + name))
				for _, o := range ks {
					vfAssume(o != k)
				}
				ks = append(ks, k)
				conf.VariableKeyMap[name] = k
				outside = outside || k < 0 || k > 255
			}
			vfAssume(outside)
		case len(layout) > 5 && layout[:5] == "hist:":
			// hist:<range>:<pre-populated names>:<registrations>: the named variables start with arbitrary
			// pairwise distinct keys (small: 0..6, out: outside 0..255); then r = RegVarAndOp over the
			// bindings, a digit = GetOrRegisterKey for that variable
			parts := vfSplit(layout[5:], ':')
			var ks []VariableKey
			for _, c := range parts[1] {
				name := names[int(c-'0')]
				k := VariableKey(vfInt16("key." + name))
				if parts[0] == "small" {
					vfAssume(k >= 0)
					vfAssume(k <= 6)
				} else {
					vfAssume(k < 0 || k > 255)
				}
				for _, o := range ks {
					vfAssume(o != k)
				}
				ks = append(ks, k)
				conf.VariableKeyMap[name] = k
			}
			for _, c := range parts[2] {
				if c == 'r' {
					vfMapOrder(true)
					RegVarAndOp(vals)(conf)
					vfMapOrder(false)
				} else {
					GetOrRegisterKey(conf, names[int(c-'0')])
				}
			}
			for i := range names {
				for j := i + 1; j < len(names); j++ {
					ki, iok := conf.VariableKeyMap[names[i]]
					kj, jok := conf.VariableKeyMap[names[j]]
					vfAssert(iok && jok && ki != kj, "two names share one key (or one has none) after the registration history "+layout)
				}
			}
		case len(layout) > 9 && layout[:9] == "register:":
			for _, c := range layout[9:] {
				GetOrRegisterKey(conf, names[int(c-'0')])
			}
		case layout == "regvarandop":
			vfMapOrder(true)
			RegVarAndOp(vals)(conf)
			vfMapOrder(false)
		case layout == "undefined":
			conf.CompileOptions[AllowUndefinedVariable] = true
		}
		e, cerr := Compile(conf, src)
		vfAssert(cerr == nil && e != nil, "tuple expression compiles under layout "+layout)
		vfMapOrder(true)
		ctx := NewCtxFromVars(conf, vals)
		vfMapOrder(false)
		res, err = e.Eval(ctx)
	}
	vfAssert(err == nil, "evaluation fails under layout "+layout)
	got, ok := res.([]Value)
	vfAssert(ok && len(got) == len(names), "tuple result has the wrong shape")
	vfReach("layout")
	for i := range names {
		vfAssert(vfValueEq(got[i], want[i]), "variable "+names[i]+" does not evaluate to the (normalised) value bound to its name under layout "+layout)
	}
}

func vfSplit(s string, sep rune) []string {
	var out []string
	cur := ""
	for _, c := range s {
		if c == sep {
			out = append(out, cur)
			cur = ""
			continue
		}
		cur += string(c)
	}
	return append(out, cur)
}
