//go:build verif

package eval

import "strconv"

func init() {
	vfRegister("VerifC15", VerifC15)
}

var vfInfixOps = []string{"*", "/", "%", "+", "-", "<", ">", "<=", ">=", "=", "==", "!=", "&", "&&", "|", "||"}

// documented precedence: * / % over + - over ! over comparisons over && over ||
func refPrecedence(op string) int {
	switch op {
	case "*", "/", "%":
		return 6
	case "+", "-":
		return 5
	case "!":
		return 4
	case "=", "==", "!=", "<", ">", "<=", ">=":
		return 3
	case "&", "&&":
		return 2
	case "|", "||":
		return 1
	}
	return 9 // calls, if(...), lists, leaves never need parentheses
}

func refIsInfixBinary(op string) bool {
	p := refPrecedence(op)
	return p != 9 && p != 4
}

// vfInfixRender renders a tree in infix notation. style: 0 minimal parentheses
// (from the documented table), 1 full parentheses, 2 one redundant pair around
// every sub-expression.
func vfInfixRender(n *refNode, style int) string {
	if n.leaf {
		if body, ok := vfListBody(n); ok {
			return "[" + body + "]"
		}
		atom := n.atom
		if _, isStr := n.lit.(string); isStr {
			atom = "\"" + atom + "\""
		}
		if style == 2 {
			return "(" + atom + ")"
		}
		return atom
	}
	wrap := func(s string) string {
		if style == 2 {
			return "((" + s + "))"
		}
		return s
	}
	switch {
	case refIsInfixBinary(n.op) && len(n.kids) == 2:
		p := refPrecedence(n.op)
		l, r := vfInfixRender(n.kids[0], style), vfInfixRender(n.kids[1], style)
		if style == 1 {
			return "(" + l + " " + n.op + " " + r + ")"
		}
		if !n.kids[0].leaf && refPrecedence(n.kids[0].op) < p {
			l = "(" + l + ")"
		}
		if !n.kids[1].leaf && refPrecedence(n.kids[1].op) <= p {
			r = "(" + r + ")"
		}
		return wrap(l + " " + n.op + " " + r)
	case n.op == "!" && len(n.kids) == 1:
		k := vfInfixRender(n.kids[0], style)
		if style == 1 {
			return "(!(" + k + "))"
		}
		// a nested unary, and any operand of lower or equal precedence, is parenthesised
		if !n.kids[0].leaf && refPrecedence(n.kids[0].op) <= 4 {
			k = "(" + k + ")"
		}
		return wrap("!" + k)
	}
	s := n.op + "("
	for i, k := range n.kids {
		if i > 0 {
			s += ", "
		}
		s += vfInfixRender(k, style)
	}
	return wrap(s + ")")
}

// vfListBody renders the elements of a list literal leaf (integers, strings or
// none at all), separated by single spaces.
func vfListBody(n *refNode) (string, bool) {
	switch l := n.lit.(type) {
	case []int64:
		s := ""
		for i, v := range l {
			if i > 0 {
				s += " "
			}
			s += strconv.FormatInt(v, 10)
		}
		return s, true
	case []string:
		s := ""
		for i, v := range l {
			if i > 0 {
				s += " "
			}
			s += "\"" + v + "\""
		}
		return s, true
	}
	return "", false
}

func vfPrefixRender(n *refNode) string {
	if n.leaf {
		if body, ok := vfListBody(n); ok {
			return "(" + body + ")"
		}
		if _, isStr := n.lit.(string); isStr {
			return "\"" + n.atom + "\""
		}
		return n.atom
	}
	s := "(" + n.op
	for _, k := range n.kids {
		s += " " + vfPrefixRender(k)
	}
	return s + ")"
}

// vfC15Instantiate fills the binary operator slots (op "?") with arbitrary infix
// operators and names / types the variable leaves ("_") from their context.
// vfC15Prefix: how the variable names start (identifiers may begin with a letter of any script or an
// underscore and may contain dots); set per unit.
var vfC15Prefix = "x"

func vfC15Instantiate(n *refNode, wantBool bool, counter *int, types map[string]bool) {
	if n.leaf {
		if n.atom == "_" {
			n.atom = vfC15Prefix + strconv.Itoa(*counter)
			*counter++
			types[n.atom] = wantBool
		}
		return
	}
	if n.op == "?" {
		n.op = vfInfixOps[vfChoice("op."+strconv.Itoa(*counter), len(vfInfixOps))]
		*counter++
	}
	switch {
	case n.op == "!":
		vfC15Instantiate(n.kids[0], true, counter, types)
	case n.op == "if":
		vfC15Instantiate(n.kids[0], true, counter, types)
		vfC15Instantiate(n.kids[1], wantBool, counter, types)
		vfC15Instantiate(n.kids[2], wantBool, counter, types)
	case refPrecedence(n.op) <= 2 || n.op == "and" || n.op == "or":
		for _, k := range n.kids {
			vfC15Instantiate(k, true, counter, types)
		}
	default:
		for _, k := range n.kids {
			vfC15Instantiate(k, false, counter, types)
		}
	}
}

// VerifC15: args = [template]. The template is a prefix-form tree whose binary
// operator slots are "?" (an arbitrary infix operator, chosen nondeterministically)
// and whose variable leaves are "_". Its infix rendering (minimal parentheses from
// the documented precedence table, full parentheses, redundant parentheses) must
// compile to the same tree as the prefix form and evaluate identically.
func VerifC15(args []string) {
	tree, ok := refRead(args[0])
	vfAssert(ok, "harness: template readable by the reference reader")
	vfC15Prefix = "x"
	if len(args) > 1 && args[1] != "" {
		vfC15Prefix = args[1]
	}
	counter := 0
	types := map[string]bool{}
	vfC15Instantiate(tree, true, &counter, types)
	mk := func(infix bool) *Config {
		conf := NewConfig()
		k := 1
		for name := range types {
			conf.VariableKeyMap[name] = VariableKey(k)
			k++
		}
		for _, o := range vfOptimizations {
			conf.CompileOptions[o] = false
		}
		conf.CompileOptions[InfixNotation] = infix
		return conf
	}
	prefix := vfPrefixRender(tree)
	pe, perr := Compile(mk(false), prefix)
	vfAssert(perr == nil && pe != nil, "prefix form compiles")
	pd := Dump(pe)
	back, ok := refRead(pd)
	vfAssert(ok && refExact(back) == refExact(tree), "harness: prefix form compiles to the template tree")
	vals := map[string]Value{}
	for name, isBool := range types {
		if isBool {
			vals[name] = vfBool("val." + name)
		} else {
			vals[name] = vfInt64("val." + name)
		}
	}
	pr, prerr := pe.Eval(&Ctx{VariableFetcher: MapVarFetcher(vals)})
	for style := 0; style < 3; style++ {
		text := vfInfixRender(tree, style)
		ie, ierr := Compile(mk(true), text)
		vfReach("infix")
		vfAssert(ierr == nil && ie != nil, "infix rendering does not compile: "+text)
		vfAssert(Dump(ie) == pd, "infix rendering compiles to another tree than the prefix form: "+text)
		ir, irerr := ie.Eval(&Ctx{VariableFetcher: MapVarFetcher(vals)})
		vfAssert((irerr == nil) == (prerr == nil), "infix and prefix form do not fail together: "+text)
		if prerr == nil {
			vfAssert(ir == pr, "infix and prefix form evaluate differently: "+text)
		}
	}
}
