//go:build verif

package eval

import "strings"

func init() {
	vfRegister("VerifC13", VerifC13)
}

// VerifC13: args = [source, event mode, configs]. For every optimisation subset:
// T = Dump(e); unless the program was folded to a bare scalar, T compiles under
// the same names (unoptimised), the recompiled program agrees with the original
// on an arbitrary binding (value and error-ness), and dumping it reproduces T
// byte for byte.
func VerifC13(args []string) {
	src, evMode := args[0], args[1]
	tree, ok := refRead(src)
	vfAssert(ok, "harness: skeleton readable by the reference reader")
	w := newWorld(tree, "")
	w.opsFail = true
	for _, opts := range vfConfigs(args, 2) {
		conf := w.config("keys", opts)
		switch evMode {
		case "event":
			conf.CompileOptions[ReportEvent] = true
		case "debug":
			conf.CompileOptions[Debug] = true
		}
		e, err := Compile(conf, src)
		vfAssert(err == nil && e != nil, "well-formed expression compiles under "+opts)
		if evMode != "" {
			e.EventChan = make(chan Event, 1<<14)
		}
		text := Dump(e)
		if !strings.HasPrefix(text, "(") {
			vfReach("folded-to-scalar")
			continue
		}
		e2, err2 := Compile(w.config("keys", "0000"), text)
		vfAssert(err2 == nil && e2 != nil, "Dump output does not compile under "+opts)
		vfReach("recompiled")
		vfAssert(Dump(e2) == text, "dumping the recompiled program does not reproduce the text under "+opts)
		r1, rerr1 := e.Eval(&Ctx{VariableFetcher: &vfFetcher{w: w}})
		vfDrain(e)
		r2, rerr2 := e2.Eval(&Ctx{VariableFetcher: &vfFetcher{w: w}})
		vfAssert((rerr1 == nil) == (rerr2 == nil), "original and recompiled program do not fail together under "+opts)
		if rerr1 == nil {
			vfAssert(r1 == r2, "original and recompiled program return different values under "+opts)
		}
	}
}
