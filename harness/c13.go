//go:build verif

package eval

import "strings"

func init() {
	vfRegister("VerifC13", VerifC13)
}

// VerifC13: args = [source, event mode, configs]. For every optimisation subset:
// T = Dump(e); unless the program was folded to a bare scalar, T compiles under
// the same names (unoptimised), the recompiled program agrees with the original
// on an arbitrary binding (value and error-ness), and dumping it reproduces T
// byte for byte.
func VerifC13(args []string) {
	src, evMode := args[0], args[1]
	tree, ok := refRead(src)
	vfAssert(ok, "harness: skeleton readable by the reference reader")
	w := newWorld(tree, "")
	w.opsFail = true
	for _, opts := range vfConfigs(args, 2) {
		conf := w.config("keys", opts)
		switch evMode {
		case "event":
			conf.CompileOptions[ReportEvent] = true
		case "debug":
			conf.CompileOptions[Debug] = true
		case "both":
			conf.CompileOptions[ReportEvent] = true
			conf.CompileOptions[Debug] = true
		}
		e, err := Compile(conf, src)
		vfAssert(err == nil && e != nil, "well-formed expression compiles under "+opts)
		if evMode != "" {
			e.EventChan = make(chan Event, 1<<14)
		}
		text := Dump(e)
		if !strings.HasPrefix(text, "(") {
			vfReach("folded-to-scalar")
			continue
		}
		e2, err2 := Compile(w.config("keys", "0000"), text)
		vfAssert(err2 == nil && e2 != nil, "Dump output does not compile under "+opts)
		vfReach("recompiled")
		vfAssert(Dump(e2) == text, "dumping the recompiled program does not reproduce the text under "+opts)
		r1, rerr1 := e.Eval(&Ctx{VariableFetcher: &vfFetcher{w: w}})
		vfDrain(e)
		r2, rerr2 := e2.Eval(&Ctx{VariableFetcher: &vfFetcher{w: w}})
		vfAssert((rerr1 == nil) == (rerr2 == nil), "original and recompiled program do not fail together under "+opts)
		if rerr1 == nil {
			vfAssert(r1 == r2, "original and recompiled program return different values under "+opts)
		}
	}
}

func init() {
	vfRegister("VerifC13Literal", VerifC13Literal)
}

// VerifC13Literal: args = [number of characters, form, options]. A string literal of
// arbitrary characters (anything the lexer accepts: every character except the double
// quote) is compiled, dumped and recompiled: the text must compile, dump to itself,
// and denote the same string.
//
//	form "eq"      (= s "<chars>")
//	     "nested"  (and b (= s "<chars>") (> a 1))     literal inside an indented sub-expression
//	     "list"    (in s ("x" "<chars>"))
//	     "mixed", "mixed-rev"  the literal among integer, Boolean and string constants that print alike
func VerifC13Literal(args []string) {
	n := 0
	for _, c := range args[0] {
		n = n*10 + int(c-'0')
	}
	form, opts := args[1], args[2]
	var chars []rune
	for i := 0; i < n; i++ {
		r := vfAlphabetRune(string(rune('0' + i)))
		vfAssume(r != '"')
		chars = append(chars, r)
	}
	lit := string(chars)
	var src string
	switch form {
	case "nested":
		src = "(and b (= s \"" + lit + "\") (> a 1))"
	case "list":
		src = "(in s (\"x\" \"" + lit + "\"))"
	case "mixed":
		// the literal next to constants of other types whose printed form it may share (5 / "5", true / "true")
		src = "(and (= a 5) (= s \"" + lit + "\") (= b true) (= t \"true\") (= (+ a 1) 6))"
	case "mixed-rev":
		src = "(and (= s \"" + lit + "\") (= a 5) (= t \"true\") (= b true) (in s (\"x\" \"" + lit + "\")) (in a (5 6)))"
	default:
		src = "(= s \"" + lit + "\")"
	}
	mk := func() *Config {
		conf := NewConfig()
		conf.VariableKeyMap["s"] = 1
		conf.VariableKeyMap["a"] = 2
		conf.VariableKeyMap["b"] = 3
		conf.VariableKeyMap["t"] = 4
		for i, o := range vfOptimizations {
			conf.CompileOptions[o] = opts[i] == '1'
		}
		return conf
	}
	e, err := Compile(mk(), src)
	vfAssert(err == nil && e != nil, "an expression with a string literal (no double quote inside) compiles")
	text := Dump(e)
	e2, err2 := Compile(mk(), text)
	vfReach("literal-dumped")
	vfAssert(err2 == nil && e2 != nil, "Dump output with a string literal does not compile")
	vfAssert(Dump(e2) == text, "dumping the recompiled program does not reproduce the text (string literal)")
	vals := map[string]Value{"s": lit, "a": int64(5), "b": true, "t": "true"}
	r1, rerr1 := e.Eval(&Ctx{VariableFetcher: MapVarFetcher(vals)})
	r2, rerr2 := e2.Eval(&Ctx{VariableFetcher: MapVarFetcher(vals)})
	vfAssert(rerr1 == nil && r1 == true, "harness: the original program recognises its own literal")
	vfAssert(rerr2 == nil && r2 == true, "the recompiled string literal is not the original string")
}
