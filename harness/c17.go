//go:build verif

package eval

import "strconv"

func init() {
	vfRegister("VerifC17", VerifC17)
	vfRegister("VerifC17Expr", VerifC17Expr)
}

func vfIntList(name string, n int) []int64 {
	out := make([]int64, n)
	for i := range out {
		out[i] = vfInt64(name + strconv.Itoa(i))
	}
	return out
}

// one-byte strings with an arbitrary byte
func vfStrList(name string, n int) []string {
	out := make([]string, n)
	for i := range out {
		out[i] = string([]byte{vfByte(name + strconv.Itoa(i))})
	}
	return out
}

// VerifC17: args = [operator, element type (i|s), len A, len B, form].
//
//	overlap: result = ∃i,j. A[i] = B[j], and overlap(A,B) = overlap(B,A)
//	in:      result = ∃j. v = L[j]; form "set" passes a pre-built set instead of a list
//	form "mismatch": element types differ → an error, not false
//	form "emptyA" / "emptyB": the empty list literal ([]string{}) on that side → false
func VerifC17(args []string) {
	op, typ, form := args[0], args[1], args[4]
	la, _ := strconv.Atoi(args[2])
	lb, _ := strconv.Atoi(args[3])
	overlap, _ := vfBuiltin("overlap")
	in, _ := vfBuiltin("in")
	vfAssert(overlap != nil && in != nil, "operators present")
	if op == "overlap" {
		var a, b Value
		var want bool
		switch {
		case form == "mismatch" && typ == "i":
			a, b = vfIntList("a", la), vfStrList("b", lb)
		case form == "mismatch":
			a, b = vfStrList("a", la), vfIntList("b", lb)
		case form == "emptyA" && typ == "i":
			a, b = []string{}, vfIntList("b", lb)
		case form == "emptyA":
			a, b = []string{}, vfStrList("b", lb)
		case form == "emptyB" && typ == "i":
			a, b = vfIntList("a", la), []string{}
		case form == "emptyB":
			a, b = vfStrList("a", la), []string{}
		case typ == "i":
			x, y := vfIntList("a", la), vfIntList("b", lb)
			for _, p := range x {
				for _, q := range y {
					want = want || p == q
				}
			}
			a, b = x, y
		default:
			x, y := vfStrList("a", la), vfStrList("b", lb)
			for _, p := range x {
				for _, q := range y {
					want = want || p == q
				}
			}
			a, b = x, y
		}
		got, err := overlap(nil, []Value{a, b})
		if form == "mismatch" {
			vfReach("mismatch")
			vfAssert(err != nil, "overlap of lists with different element types must be an error, not a value")
			return
		}
		vfAssert(err == nil, "overlap fails on well-typed lists")
		vfReach("overlap")
		vfAssert(got == want, "overlap is not non-empty intersection")
		if la*lb > 30 {
			// symmetry at large balanced sizes would square the path count; both argument
			// orders are separate units there and each is compared with the same formula
			return
		}
		got2, err2 := overlap(nil, []Value{b, a})
		vfAssert(err2 == nil, "overlap fails with its arguments swapped")
		vfAssert(got2 == got, "overlap is not symmetric")
		return
	}
	// in
	var v, coll Value
	var want bool
	switch {
	case form == "mismatch" && typ == "i":
		v, coll = vfInt64("v"), vfStrList("b", lb)
	case form == "mismatch":
		v, coll = "x", vfIntList("b", lb)
	case form == "emptyB" && typ == "i":
		v, coll = vfInt64("v"), []string{}
	case form == "emptyB":
		v, coll = string([]byte{vfByte("v")}), []string{}
	case typ == "i":
		x, l := vfInt64("v"), vfIntList("b", lb)
		for _, q := range l {
			want = want || x == q
		}
		v, coll = x, l
		if form == "set" {
			s := make(map[int64]struct{}, lb)
			for _, q := range l {
				s[q] = struct{}{}
			}
			coll = s
		}
	default:
		x, l := string([]byte{vfByte("v")}), vfStrList("b", lb)
		for _, q := range l {
			want = want || x == q
		}
		v, coll = x, l
		if form == "set" {
			s := make(map[string]struct{}, lb)
			for _, q := range l {
				s[q] = struct{}{}
			}
			coll = s
		}
	}
	got, err := in(nil, []Value{v, coll})
	if form == "mismatch" {
		vfReach("mismatch")
		vfAssert(err != nil, "membership in a list of another element type must be an error, not a value")
		return
	}
	vfAssert(err == nil, "in fails on a well-typed list")
	vfReach("in")
	vfAssert(got == want, "in is not membership")
}

// VerifC17Expr: args = [source, expected ("true" | "false" | "error")]: list
// literals and variables through Compile + Eval (table wiring, parser's empty list).
func VerifC17Expr(args []string) {
	src, want := args[0], args[1]
	vals := map[string]interface{}{"li": []int64{1, 2, 3}, "ls": []string{"a", "b"}, "n": int64(2), "s": "b", "e": []string{}}
	for _, optimize := range []bool{false, true} {
		conf := NewConfig(RegVarAndOp(vals), Optimizations(optimize))
		e, err := Compile(conf, src)
		vfAssert(err == nil && e != nil, "list expression compiles")
		got, gerr := e.Eval(NewCtxFromVars(conf, vals))
		vfReach("expr")
		switch want {
		case "error":
			vfAssert(gerr != nil, "expected an error: "+src)
		case "true":
			vfAssert(gerr == nil && got == true, "expected true: "+src)
		default:
			vfAssert(gerr == nil && got == false, "expected false: "+src)
		}
	}
}
