//go:build verif

package eval

import "strconv"

func init() {
	vfRegister("VerifC17", VerifC17)
	vfRegister("VerifC17Expr", VerifC17Expr)
}

func vfIntList(name string, n int) []int64 {
	out := make([]int64, n)
	for i := range out {
		out[i] = vfInt64(name + strconv.Itoa(i))
	}
	return out
}

// one-byte strings with an arbitrary byte
func vfStrList(name string, n int) []string {
	out := make([]string, n)
	for i := range out {
		out[i] = string([]byte{vfByte(name + strconv.Itoa(i))})
	}
	return out
}

// VerifC17: args = [operator, element type (i|s), len A, len B, form].
//
//	overlap: result = ∃i,j. A[i] = B[j], and overlap(A,B) = overlap(B,A)
//	in:      result = ∃j. v = L[j]; form "set" passes a pre-built set instead of a list
//	form "again": the lists are changed in place after a first call and evaluated again
//	form "mismatch": element types differ → an error, not false
//	form "emptyA" / "emptyB": the empty list literal ([]string{}) on that side → false
func VerifC17(args []string) {
	op, typ, form := args[0], args[1], args[4]
	la, _ := strconv.Atoi(args[2])
	lb, _ := strconv.Atoi(args[3])
	overlap, _ := vfBuiltin("overlap")
	in, _ := vfBuiltin("in")
	vfAssert(overlap != nil && in != nil, "operators present")
	if op == "overlap" {
		var a, b Value
		var want bool
		switch {
		case form == "mismatch" && typ == "i":
			a, b = vfIntList("a", la), vfStrList("b", lb)
		case form == "mismatch":
			a, b = vfStrList("a", la), vfIntList("b", lb)
		case form == "emptyA" && typ == "i":
			a, b = []string{}, vfIntList("b", lb)
		case form == "emptyA":
			a, b = []string{}, vfStrList("b", lb)
		case form == "emptyB" && typ == "i":
			a, b = vfIntList("a", la), []string{}
		case form == "emptyB":
			a, b = vfStrList("a", la), []string{}
		case typ == "i":
			x, y := vfIntList("a", la), vfIntList("b", lb)
			for _, p := range x {
				for _, q := range y {
					want = want || p == q
				}
			}
			a, b = x, y
		default:
			x, y := vfStrList("a", la), vfStrList("b", lb)
			for _, p := range x {
				for _, q := range y {
					want = want || p == q
				}
			}
			a, b = x, y
		}
		got, err := overlap(nil, []Value{a, b})
		if form == "mismatch" {
			vfReach("mismatch")
			vfAssert(err != nil, "overlap of lists with different element types must be an error, not a value")
			return
		}
		vfAssert(err == nil, "overlap fails on well-typed lists")
		vfReach("overlap")
		vfAssert(got == want, "overlap is not non-empty intersection")
		if form == "again" {
			// the caller changes its own lists in place between two evaluations: the answer follows the
			// contents (the first answer is taken to be false, so that only the second call forks)
			vfAssume(got == false)
			want2 := false
			switch x := a.(type) {
			case []int64:
				y := b.([]int64)
				x[len(x)/2] = vfInt64("a.new")
				y[len(y)-1] = vfInt64("b.new")
				for _, p := range x {
					for _, q := range y {
						want2 = want2 || p == q
					}
				}
			case []string:
				y := b.([]string)
				x[len(x)/2] = string([]byte{vfByte("a.new")})
				y[len(y)-1] = string([]byte{vfByte("b.new")})
				for _, p := range x {
					for _, q := range y {
						want2 = want2 || p == q
					}
				}
			}
			got3, err3 := overlap(nil, []Value{a, b})
			vfReach("again")
			vfAssert(err3 == nil && got3 == want2, "overlap on lists changed in place between two calls does not follow their contents")
			return
		}
		if la*lb > 30 {
			// symmetry at large balanced sizes would square the path count; both argument
			// orders are separate units there and each is compared with the same formula
			return
		}
		got2, err2 := overlap(nil, []Value{b, a})
		vfAssert(err2 == nil, "overlap fails with its arguments swapped")
		vfAssert(got2 == got, "overlap is not symmetric")
		return
	}
	// in
	var v, coll Value
	var want bool
	switch {
	case form == "mismatch" && typ == "i":
		v, coll = vfInt64("v"), vfStrList("b", lb)
	case form == "mismatch":
		v, coll = "x", vfIntList("b", lb)
	case form == "emptyB" && typ == "i":
		v, coll = vfInt64("v"), []string{}
	case form == "emptyB":
		v, coll = string([]byte{vfByte("v")}), []string{}
	case typ == "i":
		x, l := vfInt64("v"), vfIntList("b", lb)
		for _, q := range l {
			want = want || x == q
		}
		v, coll = x, l
		if form == "set" {
			s := make(map[int64]struct{}, lb)
			for _, q := range l {
				s[q] = struct{}{}
			}
			coll = s
		}
	default:
		x, l := string([]byte{vfByte("v")}), vfStrList("b", lb)
		for _, q := range l {
			want = want || x == q
		}
		v, coll = x, l
		if form == "set" {
			s := make(map[string]struct{}, lb)
			for _, q := range l {
				s[q] = struct{}{}
			}
			coll = s
		}
	}
	got, err := in(nil, []Value{v, coll})
	if form == "mismatch" {
		vfReach("mismatch")
		vfAssert(err != nil, "membership in a list of another element type must be an error, not a value")
		return
	}
	vfAssert(err == nil, "in fails on a well-typed list")
	vfReach("in")
	vfAssert(got == want, "in is not membership")
}

// VerifC17Expr: args = [source, expected ("true" | "false" | "error")]: list
// literals and variables through Compile + Eval (table wiring, parser's empty list).
func VerifC17Expr(args []string) {
	src, want := args[0], args[1]
	vals := map[string]interface{}{"li": []int64{1, 2, 3}, "ls": []string{"a", "b"}, "n": int64(2), "s": "b", "e": []string{}}
	for _, optimize := range []bool{false, true} {
		conf := NewConfig(RegVarAndOp(vals), Optimizations(optimize))
		e, err := Compile(conf, src)
		vfAssert(err == nil && e != nil, "list expression compiles")
		got, gerr := e.Eval(NewCtxFromVars(conf, vals))
		vfReach("expr")
		switch want {
		case "error":
			vfAssert(gerr != nil, "expected an error: "+src)
		case "true":
			vfAssert(gerr == nil && got == true, "expected true: "+src)
		default:
			vfAssert(gerr == nil && got == false, "expected false: "+src)
		}
	}
}

func init() {
	vfRegister("VerifC17Literal", VerifC17Literal)
}

// VerifC17Literal: args = [notation, element kind (s | i), case, "opt" | ""]. List literals with arbitrary element texts:
// a string list literal (elements of one and two arbitrary characters, anything but the double quote — digits
// included) is a list of exactly those strings, an integer list literal of its decimal values; membership and
// intersection against them behave like against the same lists passed as variables, and an operand of the
// other element type is an error.
func VerifC17Literal(args []string) {
	infix, kind := args[0] == "infix", args[1]
	vals := map[string]interface{}{"s": "", "n": int64(0), "ls": []string{}, "li": []int64{}}
	var lit string
	var e0s, e1s string
	var e0i, e1i int64
	if kind == "s" {
		r0, r1, r2 := vfAlphabetRune("e0"), vfAlphabetRune("e1a"), vfAlphabetRune("e1b")
		vfAssume(r0 != '"' && r1 != '"' && r2 != '"')
		e0s, e1s = string([]rune{r0}), string([]rune{r1, r2})
		lit = "\"" + e0s + "\" \"" + e1s + "\""
	} else {
		d0, d1, d2 := vfRune("d0"), vfRune("d1"), vfRune("d2")
		vfAssume(d0 >= '0' && d0 <= '9' && d1 >= '0' && d1 <= '9' && d2 >= '0' && d2 <= '9')
		e0i, e1i = int64(d0-'0'), int64(d1-'0')*10+int64(d2-'0')
		lit = string([]rune{d0}) + " " + string([]rune{d1, d2})
	}
	list := "(" + lit + ")"
	call := func(op, a, b string) string { return "(" + op + " " + a + " " + b + ")" }
	if infix {
		list = "[" + lit + "]"
		call = func(op, a, b string) string { return op + "(" + a + ", " + b + ")" }
	}
	optimize := args[3] == "opt"
	run := func(src string, bind map[string]interface{}) (Value, error) {
		conf := NewConfig(RegVarAndOp(vals), Optimizations(optimize))
		if infix {
			conf.CompileOptions[InfixNotation] = true
		}
		e, err := Compile(conf, src)
		vfAssert(err == nil && e != nil, "an expression with a list literal compiles")
		all := map[string]interface{}{}
		for k, v := range vals {
			all[k] = v
		}
		for k, v := range bind {
			all[k] = v
		}
		return e.Eval(NewCtxFromVars(conf, all))
	}
	vfReach("list-literal")
	// one case per unit (each evaluation forks on its own comparisons)
	switch kind + args[2] {
	case "s0":
		g, err := run(call("in", "s", list), map[string]interface{}{"s": e0s})
		vfAssert(err == nil && g == true, "a string list literal does not contain its own first element")
	case "s1":
		g, err := run(call("in", "s", list), map[string]interface{}{"s": e1s})
		vfAssert(err == nil && g == true, "a string list literal does not contain its own second element")
	case "s2":
		g, err := run(call("in", "s", list), map[string]interface{}{"s": e1s + "~"})
		vfAssert(err == nil && g == false, "a string list literal contains a string that is not an element")
	case "s3":
		g, err := run(call("overlap", "ls", list), map[string]interface{}{"ls": []string{"~~~", e1s}})
		vfAssert(err == nil && g == true, "overlap with a string list literal misses a common element")
	case "s4":
		g, err := run(call("overlap", list, "ls"), map[string]interface{}{"ls": []string{"~~~", e0s + "~~"}})
		vfAssert(err == nil && g == false, "overlap with a string list literal reports a common element that is not there")
	case "s5":
		_, err := run(call("in", "n", list), map[string]interface{}{"n": vfInt64("n")})
		vfAssert(err != nil, "an integer looked up in a string list literal must be an error")
	case "s6":
		_, err := run(call("overlap", "li", list), map[string]interface{}{"li": []int64{vfInt64("n")}})
		vfAssert(err != nil, "overlap of an integer list with a string list literal must be an error")
	case "i0":
		n := vfInt64("n")
		g, err := run(call("in", "n", list), map[string]interface{}{"n": n})
		vfAssert(err == nil && g == (n == e0i || n == e1i), "membership in an integer list literal is not membership in its decimal values")
	case "i1":
		n := vfInt64("n")
		g, err := run(call("overlap", list, "li"), map[string]interface{}{"li": []int64{n, 100}})
		vfAssert(err == nil && g == (n == e0i || n == e1i), "overlap with an integer list literal is not intersection with its decimal values")
	case "i2":
		_, err := run(call("in", "s", list), map[string]interface{}{"s": "7"})
		vfAssert(err != nil, "a string looked up in an integer list literal must be an error")
	}
}
