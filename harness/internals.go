//go:build verif

package eval

// The only place where the operator-level harnesses (C17, C18, C19) reach below
// the public API: the built-in operator table. If the current tree renames it,
// the loader substitutes fallback/internals.go, which obtains the same operators
// through Compile + Eval of a one-operator program (reported as DEGRADED).

import "sort"

// vfBuiltin returns the table entry of a built-in operator.
func vfBuiltin(name string) (Operator, bool) {
	op, ok := builtinOperators[name]
	return op, ok
}

// vfBuiltinNames lists the keys of the real table, so that aliases added to it
// are picked up without touching the harness.
func vfBuiltinNames() []string {
	var names []string
	for k := range builtinOperators {
		names = append(names, k)
	}
	sort.Strings(names)
	return names
}

func vfBuiltinCall(name string, params []Value) (Value, error) {
	op, _ := vfBuiltin(name)
	return op(nil, params)
}
