//go:build verif

package eval

import "strings"

func init() {
	vfRegister("VerifC08", VerifC08)
	vfRegister("VerifC08Copy", VerifC08Copy)
}

// vfC08Config builds a caller-owned config with a few entries in every map and
// a StatelessOperators slice that has spare capacity (an in-place append by the
// library would be a visible write into the caller's array).
func vfC08Config(w *vfWorld, opts string, shape string) *Config {
	return vfC08ConfigTagged(w, opts, shape, "")
}

func vfC08ConfigTagged(w *vfWorld, opts string, shape string, tag string) *Config {
	conf := w.config("keys", opts)
	// two operators are enough here (every extra map entry multiplies the iteration orders), unless the shape calls them
	if !strings.Contains(shape, "(z)") {
		delete(conf.OperatorMap, "z")
	}
	if !strings.Contains(shape, "(y)") {
		delete(conf.OperatorMap, "y")
	}
	conf.ConstantMap["EXTRA"] = vfInt64("const.EXTRA" + tag)
	conf.CostsMap["variable"] = vfCost("cost.variable" + tag)
	if len(w.order) > 0 {
		conf.CostsMap[w.order[0]] = vfCost("cost.first" + tag)
	}
	// a name that is not registered comes first: the library has to skip it without disturbing the list
	so := make([]string, 2, 4)
	so[0] = "absent"
	so[1] = "p"
	conf.StatelessOperators = so
	return conf
}

// VerifC08: args = [source (may carry directives / be malformed), variant, options, shape, "undef" (optional: AllowUndefinedVariable on)].
//
//	"frozen": the caller's config is frozen; Compile (successful or failing) must not
//	          write into it nor into a package variable.
//	"cross":  compilations with two configs that use the same names for other things, alternating:
//	          neither influences what the other returns.
//	"nil":    Compile(nil, …) and CopyConfig(nil): no state is carried from one call to the next.
//	"order":  the same source compiled again under every iteration order of the config
//	          maps (Go leaves map order unspecified) and after other compilations gives
//	          the same Dump / DumpTable and the same Eval result on a shared binding.
func VerifC08(args []string) {
	src, variant, opts := args[0], args[1], args[2]
	shape := args[3] // the directive-free, well-formed expression the variables are taken from
	tree, ok := refRead(shape)
	vfAssert(ok, "harness: skeleton readable by the reference reader")
	w := newWorld(tree, "")
	conf := vfC08Config(w, opts, shape)
	if len(args) > 4 && args[4] == "undef" {
		conf.CompileOptions[AllowUndefinedVariable] = true
	}
	if variant == "nil" {
		// no config at all: every such compilation starts from the same defaults, directives of one do not
		// reach the next, and the configs CopyConfig(nil) hands out are independent of each other
		e0, err0 := Compile(NewConfig(), shape)
		vfAssert(err0 == nil && e0 != nil, "a variable-free source compiles under an empty config")
		d0, t0 := Dump(e0), DumpTable(e0, false)
		Compile(nil, src)
		e1, err1 := Compile(nil, shape)
		vfReach("nil-config")
		vfAssert(err1 == nil && e1 != nil, "a variable-free source compiles without a config")
		vfAssert(Dump(e1) == d0 && DumpTable(e1, false) == t0, "an earlier compilation without a config changed what the next one returns")
		c1, c2 := CopyConfig(nil), CopyConfig(nil)
		vfAssert(c1 != nil && c2 != nil && c1 != c2, "CopyConfig(nil) returns distinct configs")
		vfAssert(vfSharedMutable(c1, c2) == 0, "two configs from CopyConfig(nil) share a map or slice")
		c1.ConstantMap["X"] = int64(1)
		c1.CompileOptions[Reordering] = false
		vfAssert(len(c2.ConstantMap) == 0 && len(c2.CompileOptions) == len(NewConfig().CompileOptions), "writing one config from CopyConfig(nil) changed another")
		return
	}
	if variant == "frozen" {
		nOpts := len(conf.CompileOptions)
		nConst := len(conf.ConstantMap)
		nVars, nOps, nCosts := len(conf.VariableKeyMap), len(conf.OperatorMap), len(conf.CostsMap)
		vfFreezeStop(w)
		vfFreeze(conf)
		e, err := Compile(conf, src)
		vfReach("compiled-frozen")
		if err == nil {
			vfReach("compile-ok")
		} else {
			vfReach("compile-error")
		}
		vfAssert((e == nil) != (err == nil), "Compile returns exactly one of program and error")
		vfAssert(vfFrozenWrites() == 0, "Compile wrote into the caller's Config")
		vfAssert(vfGlobalWrites() == 0, "Compile wrote a package variable")
		vfAssert(len(conf.CompileOptions) == nOpts && len(conf.ConstantMap) == nConst && len(conf.VariableKeyMap) == nVars && len(conf.OperatorMap) == nOps && len(conf.CostsMap) == nCosts, "Compile changed the size of a caller-owned map")
		vfAssert(len(conf.StatelessOperators) == 2 && cap(conf.StatelessOperators) == 4 && conf.StatelessOperators[:4][2] == "", "Compile appended into the caller's StatelessOperators array")
		vfAssert(conf.StatelessOperators[0] == "absent" && conf.StatelessOperators[1] == "p", "Compile rewrote the caller's StatelessOperators")
		return
	}
	if variant == "cross" {
		// a second config with the same names and other contents: p is another function there and is
		// not declared stateless, the constants have other values. What Compile returns for it must
		// not depend on a compilation with the first config having happened in between.
		other := vfC08ConfigTagged(w, opts, shape, ".other")
		other.StatelessOperators = nil
		inner := other.OperatorMap["p"]
		other.OperatorMap["p"] = func(c *Ctx, ps []Value) (Value, error) { return inner(c, ps) }
		for k, v := range other.ConstantMap {
			if iv, ok := v.(int64); ok {
				other.ConstantMap[k] = iv + 1
			}
		}
		// the two configs also price different names: the first has entries the other lacks and vice versa,
		// so an entry surviving from one compilation into the next shows in the operand order
		if len(w.order) > 0 {
			delete(other.CostsMap, w.order[0])
			delete(other.CostsMap, "variable")
			last := w.order[len(w.order)-1]
			if last != w.order[0] {
				other.CostsMap[last] = vfCost("cost.last.other")
			}
			other.CostsMap["p"] = vfCost("cost.p.other")
		}
		e1, err1 := Compile(other, src)
		vfAssert(err1 == nil && e1 != nil, "source compiles")
		d1, t1 := Dump(e1), DumpTable(e1, false)
		ea, erra := Compile(conf, src)
		vfAssert(erra == nil && ea != nil, "source compiles under the first config")
		da := Dump(ea)
		e2, err2 := Compile(other, src)
		vfAssert(err2 == nil && e2 != nil, "source compiles again")
		ea2, _ := Compile(conf, src)
		vfReach("cross")
		vfAssert(Dump(e2) == d1 && DumpTable(e2, false) == t1, "a compilation with another config changed what Compile returns for this one")
		vfAssert(ea2 != nil && Dump(ea2) == da, "a compilation with another config changed what Compile returns for the first one")
		return
	}
	// determinism
	e1, err1 := Compile(conf, src)
	vfAssert(err1 == nil && e1 != nil, "source compiles")
	d1, t1 := Dump(e1), DumpTable(e1, false)
	// other compilations in between
	Compile(conf, "(and true")
	Compile(conf, ";;;; optimize: false\n"+shape)
	Compile(conf, ";;;; reordering: bogus\n"+shape)
	vfMapOrder(true)
	e2, err2 := Compile(conf, src)
	vfMapOrder(false)
	vfAssert(err2 == nil && e2 != nil, "source compiles again")
	vfReach("recompiled")
	vfAssert(Dump(e2) == d1, "compiling the same source again gives another tree")
	vfAssert(DumpTable(e2, false) == t1, "compiling the same source again gives another program")
	w.opsFail = true
	r1, rerr1 := e1.Eval(&Ctx{VariableFetcher: &vfFetcher{w: w}})
	r2, rerr2 := e2.Eval(&Ctx{VariableFetcher: &vfFetcher{w: w}})
	vfAssert((rerr1 == nil) == (rerr2 == nil), "the two compilations do not fail together")
	if rerr1 == nil {
		vfAssert(r1 == r2, "the two compilations evaluate differently")
	}
}

// VerifC08Copy: args = [via ("copy" | "extend")]. The copy shares no mutable
// container with its source, and mutating every field of the copy leaves the
// (frozen) source untouched.
func VerifC08Copy(args []string) {
	tree, _ := refRead("(and b0 (p b1) (> i0 KI0))")
	w := newWorld(tree, "")
	src := vfC08Config(w, "1010", "")
	src.CompileOptions[AllowUndefinedVariable] = vfBool("opt.undef")
	var cp *Config
	if args[0] == "extend" {
		cp = NewConfig(ExtendConf(src))
	} else {
		cp = CopyConfig(src)
	}
	vfReach("copied")
	vfAssert(cp != nil && cp != src, "copy is a distinct object")
	vfAssert(vfSharedMutable(src, cp) == 0, "copy shares a map or slice backing array with its source")
	// contents are equal
	vfAssert(len(cp.ConstantMap) == len(src.ConstantMap) && len(cp.OperatorMap) == len(src.OperatorMap) &&
		len(cp.VariableKeyMap) == len(src.VariableKeyMap) && len(cp.CostsMap) == len(src.CostsMap) &&
		len(cp.CompileOptions) == len(src.CompileOptions) && len(cp.StatelessOperators) == len(src.StatelessOperators), "copy has other sizes than its source")
	for k, v := range src.ConstantMap {
		vfAssert(cp.ConstantMap[k] == v, "copy differs in ConstantMap")
	}
	for k, v := range src.VariableKeyMap {
		vfAssert(cp.VariableKeyMap[k] == v, "copy differs in VariableKeyMap")
	}
	for k, v := range src.CostsMap {
		vfAssert(cp.CostsMap[k] == v, "copy differs in CostsMap")
	}
	for k, v := range src.CompileOptions {
		vfAssert(cp.CompileOptions[k] == v, "copy differs in CompileOptions")
	}
	for k := range src.OperatorMap {
		vfAssert(cp.OperatorMap[k] != nil, "copy misses an operator")
	}
	for i, s := range src.StatelessOperators {
		vfAssert(cp.StatelessOperators[i] == s, "copy differs in StatelessOperators")
	}
	// mutate the copy everywhere with the source frozen
	vfFreezeStop(w)
	vfFreeze(src)
	cp.ConstantMap["new"] = int64(1)
	cp.ConstantMap["EXTRA"] = int64(2)
	cp.VariableKeyMap["new"] = 77
	cp.VariableKeyMap["b0"] = 78
	cp.OperatorMap["new"] = w.opP
	cp.CostsMap["new"] = 1
	cp.CostsMap["variable"] = 2
	cp.CompileOptions[Reordering] = true
	cp.CompileOptions[Debug] = true
	cp.StatelessOperators[0] = "changed"
	cp.StatelessOperators = append(cp.StatelessOperators, "x", "y")
	GetOrRegisterKey(cp, "another")
	vfAssert(vfFrozenWrites() == 0, "mutating the copy wrote into the source config")
	vfAssert(src.StatelessOperators[0] == "absent" && src.StatelessOperators[1] == "p" && len(src.ConstantMap) == 2 && src.CompileOptions[Reordering] == false, "mutating the copy changed the source config")
}
