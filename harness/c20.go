//go:build verif

package eval

import "strconv"

func init() {
	vfRegister("VerifC20", VerifC20)
}

// VerifC20: args = [level, result type ("bool" | "num"), options (letters: v variables,
// c conditions, t TryEval/DNE variables), optionally the classes of variables supplied]. (*rand.Rand).Intn is an arbitrary value in
// range, so one symbolic run covers every seed. Variables carry arbitrary int64 / bool
// values, so at level 1 the operands of the generated operator range over every possible
// child result (any int64, any bool, DNE): the code that computes Res from the children's
// Res is exactly the code that runs at every level ≥ 1.
//
// The generated expression must compile with the variables given, evaluate without
// error, and its reported result must equal (a) the reference semantics (left-to-right
// short-circuit evaluation, or strong three-valued evaluation when DNE variables occur)
// and (b) what the engine returns (Eval, or TryEval with the DNE variables unavailable).
func VerifC20(args []string) {
	level, _ := strconv.Atoi(args[0])
	typ, flags := args[1], args[2]
	has := func(c byte) bool {
		for i := 0; i < len(flags); i++ {
			if flags[i] == c {
				return true
			}
		}
		return false
	}
	// which classes of variables the caller supplies: n numbers, b booleans, d DNE variables
	// (only together with the TryEval option), s a string variable (the generator has no use for it)
	varset := "nbd"
	if len(args) > 3 {
		varset = args[3]
	}
	gives := func(c byte) bool {
		for i := 0; i < len(varset); i++ {
			if varset[i] == c {
				return true
			}
		}
		return false
	}
	universe, _ := refRead("(tuple b0 b1 i0 i1 i8 i9 s0)")
	w := newWorld(universe, "")
	var numVars, boolVars, dneVars, otherVars []GenExprResult
	for _, name := range w.order {
		v := w.vars[name]
		w.load(v)
		v.availSet, v.avail = true, true
		switch name {
		case "i8", "i9":
			if gives('d') {
				v.avail = false
				dneVars = append(dneVars, GenExprResult{Expr: name, Res: DNE})
			}
		case "b0", "b1":
			if gives('b') {
				boolVars = append(boolVars, GenExprResult{Expr: name, Res: v.val})
			}
		case "s0":
			if gives('s') {
				otherVars = append(otherVars, GenExprResult{Expr: name, Res: v.val})
			}
		default:
			if gives('n') {
				numVars = append(numVars, GenExprResult{Expr: name, Res: v.val})
			}
		}
	}
	// the variables go through the public GenVariables option, one call per variable so that
	// their order does not depend on map iteration; the integers are passed as different Go
	// integer types (the option normalises them to int64)
	// 'L' in the variable classes: the option is built from a map that receives its values afterwards
	// (the variables are those the map holds when the expression is generated)
	late := gives('L')
	genVar := func(name string, val interface{}, placeholder interface{}) GenExprOption {
		if !late {
			return GenVariables(map[string]interface{}{name: val})
		}
		mm := map[string]interface{}{name: placeholder}
		opt := GenVariables(mm)
		mm[name] = val
		return opt
	}
	var opts []GenExprOption
	for i, nv := range numVars {
		var raw interface{} = nv.Res
		if i == 0 {
			raw = int(nv.Res.(int64))
		}
		opts = append(opts, genVar(nv.Expr, raw, int64(1)))
	}
	for _, bv := range boolVars {
		opts = append(opts, genVar(bv.Expr, bv.Res, DNE))
	}
	for _, ov := range otherVars {
		opts = append(opts, GenVariables(map[string]interface{}{ov.Expr: ov.Res}))
	}
	if has('t') {
		for _, dv := range dneVars {
			opts = append(opts, GenVariables(map[string]interface{}{dv.Expr: DNE}))
		}
	}
	if typ == "num" {
		opts = append(opts, GenType(GenNumber))
	} else {
		opts = append(opts, GenType(GenBool))
	}
	if has('v') {
		opts = append(opts, EnableVariable)
	}
	if has('c') {
		opts = append(opts, EnableCondition)
	}
	if has('t') {
		opts = append(opts, EnableTryEval)
	}
	g := GenerateRandomExpr(level, vfRand(), opts...)
	vfReach("generated")

	// numeric literals of arbitrary value appear as placeholder constants
	tree, ok := refRead(g.Expr)
	vfAssert(ok, "generated expression is not a well-formed prefix expression: "+g.Expr)
	conf := w.config("keys", "0000")
	var leaves []*refNode
	refLeaves(tree, &leaves)
	for _, l := range leaves {
		if ph, isPh := vfPlaceholder(l.atom); isPh {
			conf.ConstantMap[l.atom] = ph
		}
	}
	e, err := Compile(conf, g.Expr)
	if tree.leaf {
		// a bare atom: only the reported value can be checked against the reference; whether it
		// compiles is asserted last (separately labelled)
		w.useAvail = true
		if has('t') {
			want, definite := w.refKleene(tree)
			vfAssert((definite && g.Res == want) || (!definite && g.Res == DNE), "reported result of a bare atom differs from three-valued evaluation: "+g.Expr)
		} else {
			want, werr := w.refEval(tree)
			vfAssert(werr == nil && g.Res == want, "reported result of a bare atom differs from the reference semantics: "+g.Expr)
		}
		vfReach("bare-atom")
		vfAssert(err == nil && e != nil, "a generated bare atom (level 0) does not compile: "+g.Expr)
		return
	}
	vfAssert(err == nil && e != nil, "generated expression does not compile with the variables given: "+g.Expr)

	w.useAvail = true
	if has('t') {
		// the engine first: the three-valued reference assumes that no sub-expression fails (C05's
		// quantifier), and an assumption must not hide a generated expression that does fail
		got, gerr := e.TryEval(&Ctx{VariableFetcher: &vfFetcher{w: w}})
		vfAssert(gerr == nil, "TryEval of the generated expression fails: "+g.Expr)
		vfAssert(got == g.Res, "reported result differs from TryEval: "+g.Expr)
		want, definite := w.refKleene(tree)
		if definite {
			vfReach("definite")
			vfAssert(g.Res == want, "reported result differs from three-valued evaluation: "+g.Expr)
		} else {
			vfReach("dne")
			vfAssert(g.Res == DNE, "three-valued evaluation is undecided but the reported result is not DNE: "+g.Expr)
		}
		return
	}
	want, werr := w.refEval(tree)
	vfAssert(werr == nil, "the generated expression fails under the reference semantics: "+g.Expr)
	vfAssert(g.Res == want, "reported result differs from the reference semantics: "+g.Expr)
	got, gerr := e.Eval(&Ctx{VariableFetcher: &vfFetcher{w: w}})
	vfAssert(gerr == nil, "Eval of the generated expression fails: "+g.Expr)
	vfAssert(got == g.Res, "reported result differs from Eval: "+g.Expr)
}
