//go:build verif

package eval

func init() {
	vfRegister("VerifC10", VerifC10)
}

// refConstVal mirrors the documented folding rule: the value a sub-expression
// is known to have at compile time, if any. Literals and constants have one;
// a built-in (or stateless-declared) operator whose operands all have one and
// that succeeds has one; an and/or with a deciding constant operand has one;
// variables, `if` and undeclared custom operators never do.
func (w *vfWorld) refConstVal(n *refNode, stateless string, folding bool) (Value, bool) {
	if n.leaf {
		if n.isLit {
			return n.lit, true
		}
		if c, ok := w.consts[n.atom]; ok {
			return c, true
		}
		return nil, false
	}
	if !folding || n.op == "if" {
		return nil, false
	}
	if _, custom := w.ops[n.op]; custom && !vfDeclared(stateless, n.op) {
		return nil, false
	}
	vals := make([]Value, len(n.kids))
	isC := make([]bool, len(n.kids))
	all := true
	for i, k := range n.kids {
		vals[i], isC[i] = w.refConstVal(k, stateless, folding)
		if !isC[i] {
			all = false
		}
	}
	if refIsAnd(n.op) || refIsOr(n.op) {
		for i := range n.kids {
			if !isC[i] {
				continue
			}
			b, ok := vals[i].(bool)
			if !ok {
				break
			}
			if (refIsAnd(n.op) && !b) || (refIsOr(n.op) && b) {
				return b, true
			}
		}
	}
	if !all {
		return nil, false
	}
	saveLog := w.logOn
	w.logOn = false
	res, err := w.refApply(n.op, vals)
	w.logOn = saveLog
	if err != nil {
		return nil, false
	}
	return res, true
}

// refMustRemain collects the variables that folding is not allowed to remove.
func (w *vfWorld) refMustRemain(n *refNode, stateless string, folding bool, out map[string]bool) {
	if n.leaf {
		if !n.isLit {
			if _, isConst := w.consts[n.atom]; !isConst {
				out[n.atom] = true
			}
		}
		return
	}
	if _, isC := w.refConstVal(n, stateless, folding); isC {
		return
	}
	for _, k := range n.kids {
		w.refMustRemain(k, stateless, folding, out)
	}
}

// vfDeclared: is the operator (p, q, z) listed in the stateless declaration string?
func vfDeclared(stateless string, op string) bool {
	for i := 0; i < len(stateless); i++ {
		if stateless[i] == op[0] && len(op) == 1 {
			return true
		}
	}
	return false
}

// refEvalFolded is the documented run-time meaning of a program compiled with
// constant folding (orders preserved, i.e. without Reordering / FastEvaluation):
// a sub-expression with a compile-time value (refConstVal) yields it without being
// evaluated; everything else is evaluated left to right with short-circuit, so a
// failing constant sub-expression fails at run time exactly when it is reached.
func (w *vfWorld) refEvalFolded(n *refNode, stateless string, folding bool) (Value, error) {
	if v, isC := w.refConstVal(n, stateless, folding); isC {
		return v, nil
	}
	if n.leaf {
		return w.refLeaf(n)
	}
	switch {
	case n.op == "if":
		c, err := w.refEvalFolded(n.kids[0], stateless, folding)
		if err != nil {
			return nil, err
		}
		b, ok := c.(bool)
		if !ok {
			return nil, errRefBuiltin
		}
		if b {
			return w.refEvalFolded(n.kids[1], stateless, folding)
		}
		return w.refEvalFolded(n.kids[2], stateless, folding)
	case refIsAnd(n.op) || refIsOr(n.op):
		isAnd := refIsAnd(n.op)
		for _, k := range n.kids {
			v, err := w.refEvalFolded(k, stateless, folding)
			if err != nil {
				return nil, err
			}
			b, ok := v.(bool)
			vfAssume(ok)
			if isAnd && !b {
				return false, nil
			}
			if !isAnd && b {
				return true, nil
			}
		}
		return isAnd, nil
	}
	args := make([]Value, len(n.kids))
	for i, k := range n.kids {
		v, err := w.refEvalFolded(k, stateless, folding)
		if err != nil {
			return nil, err
		}
		args[i] = v
	}
	return w.refApply(n.op, args)
}

// VerifC10: args = [source, stateless declaration (subset of "pqz"), configs, failure style ("" | "value")].
func VerifC10(args []string) {
	src, stateless := args[0], args[1]
	tree, ok := refRead(src)
	vfAssert(ok, "harness: skeleton readable by the reference reader")
	w := newWorld(tree, "")
	w.opsFail = true
	w.failValue = len(args) > 3 && args[3] == "value"
	decoy := len(args) > 3 && args[3] == "decoy"
	decoyCalls := 0
	for _, opts := range vfConfigs(args, 2) {
		conf := w.config("keys", opts)
		if decoy {
			// operators registered under the names of built-in ones (by filling the map directly): the parser
			// binds such a name to the built-in operator, so these are never invoked, at compile time or later
			for _, name := range []string{"+", "/", ">", "=", "and", "or", "not", "in", "between", "xor", "add", "eq"} {
				conf.OperatorMap[name] = func(_ *Ctx, _ []Value) (Value, error) { decoyCalls++; return int64(-777), nil }
			}
		}
		conf.StatelessOperators = []string{"ghost"}
		for _, name := range []string{"p", "q", "z", "y"} {
			if vfDeclared(stateless, name) {
				conf.StatelessOperators = append(conf.StatelessOperators, name)
			}
		}
		p0, q0, z0 := w.pCalls, w.qCalls, w.zCalls
		e, err := Compile(conf, src)
		// (3) failing constant sub-expressions never fail the compilation
		vfAssert(err == nil && e != nil, "Compile fails on a well-formed expression (constant sub-expressions may fail only at run time) under "+opts)
		// (1) undeclared operators are never invoked at compile time
		vfReach("undeclared")
		vfAssert(vfDeclared(stateless, "p") || w.pCalls == p0, "registered operator p, not declared stateless, was invoked during Compile under "+opts)
		vfAssert(vfDeclared(stateless, "q") || w.qCalls == q0, "registered operator q, not declared stateless, was invoked during Compile under "+opts)
		vfAssert(vfDeclared(stateless, "z") || w.zCalls == z0, "registered operator z, not declared stateless, was invoked during Compile under "+opts)
		if opts[0] == '0' {
			vfAssert(w.pCalls == p0 && w.qCalls == q0 && w.zCalls == z0, "an operator was invoked during Compile although ConstantFolding is off under "+opts)
		}
		vfAssert(decoyCalls == 0, "an operator registered under a built-in name was invoked during Compile under "+opts)
		otree, ok := refRead(Dump(e))
		vfAssert(ok, "Dump output readable by the reference reader under "+opts)
		// (5) variables survive unless a deciding constant operand of an enclosing and/or removes them
		must := map[string]bool{}
		w.refMustRemain(tree, stateless, opts[0] == '1', must)
		var leaves []*refNode
		refLeaves(otree, &leaves)
		present := map[string]bool{}
		for _, l := range leaves {
			present[l.atom] = true
		}
		for _, name := range w.order {
			if must[name] {
				vfReach("must-remain")
				vfAssert(present[name], "variable "+name+" was folded away although no constant operand of an enclosing and/or decides it, under "+opts)
			}
		}
		// (2) every evaluation performs exactly the calls of the optimised tree: nothing is baked in
		for k := 0; k < 2; k++ {
			pc, qc, zc := w.pCalls, w.qCalls, w.zCalls
			got, gerr := e.Eval(&Ctx{VariableFetcher: &vfFetcher{w: w}})
			dp, dq, dz := w.pCalls-pc, w.qCalls-qc, w.zCalls-zc
			pc, qc, zc = w.pCalls, w.qCalls, w.zCalls
			want, werr := w.refEval(otree)
			rp, rq, rz := w.pCalls-pc, w.qCalls-qc, w.zCalls-zc
			vfReach("evaluated")
			vfAssert(decoyCalls == 0, "an operator registered under a built-in name was invoked during evaluation under "+opts)
			vfAssert(dp == rp && dq == rq && dz == rz, "evaluation does not invoke the registered operators as often as the optimised tree requires under "+opts)
			// the run-time meaning of the SOURCE under the documented folding rule (orders preserved)
			if opts[2] == '0' && opts[3] == '0' {
				fwant, ferr := w.refEvalFolded(tree, stateless, opts[0] == '1')
				vfReach("folded-semantics")
				vfAssert((gerr == nil) == (ferr == nil), "a failing sub-expression does not surface from Eval exactly when it is reached (or a succeeding one fails) under "+opts)
				if gerr == nil && ferr == nil {
					vfAssert(got == fwant, "Eval differs from the documented meaning of the folded source under "+opts)
				}
			}
			// (4) a failure surfaces exactly when the optimised tree reaches it
			if opts[2] == '0' {
				vfAssert((gerr == nil) == (werr == nil), "Eval and the optimised tree fail together under "+opts)
			}
			if gerr == nil && werr == nil {
				vfAssert(got == want, "Eval returns the value of the optimised tree under "+opts)
			}
		}
	}
}

func vfCountOps(n *refNode) int {
	if n.leaf {
		return 0
	}
	c := 0
	if n.op == "p" || n.op == "q" {
		c = 1
	}
	for _, k := range n.kids {
		c += vfCountOps(k)
	}
	return c
}
