//go:build verif

package eval

func init() {
	vfRegister("VerifC10", VerifC10)
}

// refConstVal mirrors the documented folding rule: the value a sub-expression
// is known to have at compile time, if any. Literals and constants have one;
// a built-in (or stateless-declared) operator whose operands all have one and
// that succeeds has one; an and/or with a deciding constant operand has one;
// variables, `if` and undeclared custom operators never do.
func (w *vfWorld) refConstVal(n *refNode, stateless bool, folding bool) (Value, bool) {
	if n.leaf {
		if n.isLit {
			return n.lit, true
		}
		if c, ok := w.consts[n.atom]; ok {
			return c, true
		}
		return nil, false
	}
	if !folding || n.op == "if" {
		return nil, false
	}
	if _, custom := w.ops[n.op]; custom && !stateless {
		return nil, false
	}
	vals := make([]Value, len(n.kids))
	isC := make([]bool, len(n.kids))
	all := true
	for i, k := range n.kids {
		vals[i], isC[i] = w.refConstVal(k, stateless, folding)
		if !isC[i] {
			all = false
		}
	}
	if refIsAnd(n.op) || refIsOr(n.op) {
		for i := range n.kids {
			if !isC[i] {
				continue
			}
			b, ok := vals[i].(bool)
			if !ok {
				break
			}
			if (refIsAnd(n.op) && !b) || (refIsOr(n.op) && b) {
				return b, true
			}
		}
	}
	if !all {
		return nil, false
	}
	saveLog := w.logOn
	w.logOn = false
	res, err := w.refApply(n.op, vals)
	w.logOn = saveLog
	if err != nil {
		return nil, false
	}
	return res, true
}

// refMustRemain collects the variables that folding is not allowed to remove.
func (w *vfWorld) refMustRemain(n *refNode, stateless, folding bool, out map[string]bool) {
	if n.leaf {
		if !n.isLit {
			if _, isConst := w.consts[n.atom]; !isConst {
				out[n.atom] = true
			}
		}
		return
	}
	if _, isC := w.refConstVal(n, stateless, folding); isC {
		return
	}
	for _, k := range n.kids {
		w.refMustRemain(k, stateless, folding, out)
	}
}

// VerifC10: args = [source, stateless ("" | "pq"), configs].
func VerifC10(args []string) {
	src, stateless := args[0], args[1]
	tree, ok := refRead(src)
	vfAssert(ok, "harness: skeleton readable by the reference reader")
	w := newWorld(tree, "")
	w.opsFail = true
	for _, opts := range vfConfigs(args, 2) {
		conf := w.config("keys", opts)
		if stateless == "pq" {
			conf.StatelessOperators = []string{"p", "q", "ghost"}
		}
		p0, q0 := w.pCalls, w.qCalls
		e, err := Compile(conf, src)
		// (3) failing constant sub-expressions never fail the compilation
		vfAssert(err == nil && e != nil, "Compile fails on a well-formed expression (constant sub-expressions may fail only at run time) under "+opts)
		// (1) undeclared operators are never invoked at compile time
		if stateless == "" {
			vfReach("undeclared")
			vfAssert(w.pCalls == p0 && w.qCalls == q0, "a registered operator not declared stateless was invoked during Compile under "+opts)
		} else if opts[0] == '0' {
			vfAssert(w.pCalls == p0 && w.qCalls == q0, "an operator was invoked during Compile although ConstantFolding is off under "+opts)
		}
		otree, ok := refRead(Dump(e))
		vfAssert(ok, "Dump output readable by the reference reader under "+opts)
		// (5) variables survive unless a deciding constant operand of an enclosing and/or removes them
		must := map[string]bool{}
		w.refMustRemain(tree, stateless == "pq", opts[0] == '1', must)
		var leaves []*refNode
		refLeaves(otree, &leaves)
		present := map[string]bool{}
		for _, l := range leaves {
			present[l.atom] = true
		}
		for _, name := range w.order {
			if must[name] {
				vfReach("must-remain")
				vfAssert(present[name], "variable "+name+" was folded away although no constant operand of an enclosing and/or decides it, under "+opts)
			}
		}
		// (2) every evaluation performs exactly the calls of the optimised tree: nothing is baked in
		for k := 0; k < 2; k++ {
			pc, qc := w.pCalls, w.qCalls
			got, gerr := e.Eval(&Ctx{VariableFetcher: &vfFetcher{w: w}})
			dp, dq := w.pCalls-pc, w.qCalls-qc
			pc, qc = w.pCalls, w.qCalls
			want, werr := w.refEval(otree)
			rp, rq := w.pCalls-pc, w.qCalls-qc
			vfReach("evaluated")
			vfAssert(dp == rp && dq == rq, "evaluation does not invoke the registered operators as often as the optimised tree requires under "+opts)
			// (4) a failure surfaces exactly when the optimised tree reaches it
			if opts[2] == '0' {
				vfAssert((gerr == nil) == (werr == nil), "Eval and the optimised tree fail together under "+opts)
			}
			if gerr == nil && werr == nil {
				vfAssert(got == want, "Eval returns the value of the optimised tree under "+opts)
			}
		}
	}
}

func vfCountOps(n *refNode) int {
	if n.leaf {
		return 0
	}
	c := 0
	if n.op == "p" || n.op == "q" {
		c = 1
	}
	for _, k := range n.kids {
		c += vfCountOps(k)
	}
	return c
}
