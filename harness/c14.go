//go:build verif

package eval

import (
	"strconv"
	"strings"
	"unicode"
)

func init() {
	vfRegister("VerifC14Layout", VerifC14Layout)
	vfRegister("VerifC14Format", VerifC14Format)
	vfRegister("VerifC14FormatExpr", VerifC14FormatExpr)
}

func vfC14Conf(infix bool) *Config {
	conf := NewConfig()
	conf.VariableKeyMap["a"] = 1
	conf.VariableKeyMap["b"] = 2
	conf.VariableKeyMap["s"] = 3
	conf.ConstantMap["K"] = int64(7)
	if infix {
		conf.CompileOptions[InfixNotation] = true
	}
	return conf
}

type vfCompiled struct {
	ok    bool
	dump  string
	table string
}

func vfC14Compile(text string, infix bool) vfCompiled {
	e, err := Compile(vfC14Conf(infix), text)
	if err != nil {
		return vfCompiled{}
	}
	return vfCompiled{ok: true, dump: Dump(e), table: DumpTable(e, false)}
}

// vfSpaceRune: an arbitrary Unicode space out of the alphabet.
func vfSpaceRune(name string) rune {
	r := vfAlphabetRune(name)
	vfAssume(unicode.IsSpace(r))
	return r
}

// VerifC14Layout: args = [tokens separated by \x1f, gap index, gap kind, notation].
// The tokens are laid out with single spaces (baseline) and with the gap at the
// given index replaced by: "space1"/"space2" one or two arbitrary Unicode spaces,
// "comment" a comment with two arbitrary non-newline characters, "comment0" an empty comment, "comment1" a comment
// of one character directly after the token, "comment-twice" three comment lines in a row, "comment-lead" /
// "comment-trail" comments before the first token / after the last one without a final line break, "none" nothing
// (only where a delimiter makes the boundary), "directive" a ;;;; directive (must be
// inert after the first token), "lead"/"trail" arbitrary spaces before / after the text.
// The compiled program must not change.
func VerifC14Layout(args []string) {
	toks := vfSplit(args[0], '\x1f')
	gap, _ := strconv.Atoi(args[1])
	kind := args[2]
	infix := args[3] == "infix"
	base := strings.Join(toks, " ")
	var filler string
	switch kind {
	case "space1":
		filler = string([]rune{vfSpaceRune("0")})
	case "space2", "lead", "trail":
		filler = string([]rune{vfSpaceRune("0"), vfSpaceRune("1")})
	case "comment":
		c0, c1 := vfAlphabetRune("c0"), vfAlphabetRune("c1")
		vfAssume(c0 != '\n' && c1 != '\n')
		filler = " ;" + string([]rune{c0, c1}) + "\n"
	case "comment0":
		filler = " ;\n" // an empty comment
	case "comment1":
		c0 := vfAlphabetRune("c0")
		vfAssume(c0 != '\n')
		filler = ";" + string([]rune{c0}) + "\n" // a semicolon ends the token before it
	case "comment-twice":
		c0 := vfAlphabetRune("c0")
		vfAssume(c0 != '\n')
		filler = " ;\n;" + string([]rune{c0}) + "\n;\n"
	case "comment-lead", "comment-trail":
		c0, c1 := vfAlphabetRune("c0"), vfAlphabetRune("c1")
		vfAssume(c0 != '\n' && c1 != '\n')
		if kind == "comment-lead" {
			filler = ";\n;" + string([]rune{c0}) + "\n"
		} else {
			filler = " ;" + string([]rune{c0, c1}) // no line break after the last comment
		}
	case "directive":
		filler = " ;;;; optimize: false\n;;;;reordering:false\n "
	case "none":
		filler = ""
	}
	var sb strings.Builder
	if kind == "lead" || kind == "comment-lead" {
		sb.WriteString(filler)
	}
	for i, t := range toks {
		if i > 0 {
			if i-1 == gap && kind != "lead" && kind != "trail" && kind != "comment-lead" && kind != "comment-trail" {
				sb.WriteString(filler)
			} else {
				sb.WriteString(" ")
			}
		}
		sb.WriteString(t)
	}
	if kind == "trail" || kind == "comment-trail" {
		sb.WriteString(filler)
	}
	want := vfC14Compile(base, infix)
	got := vfC14Compile(sb.String(), infix)
	vfReach("layout")
	if want.ok {
		vfReach("layout-compiles")
	}
	vfAssert(got.ok == want.ok, "re-layout changes whether the expression compiles ("+kind+")")
	if want.ok {
		vfAssert(got.dump == want.dump, "re-layout changes the compiled tree ("+kind+")")
		vfAssert(got.table == want.table, "re-layout changes the compiled program ("+kind+")")
	}
}

// ---------------------------------------------------------------------------
// reference lexer (documented token rules)

type refTok struct {
	kind byte // 't' token, 's' string literal, 'c' comment
	text string
}

func refLexIsDelim(r rune) bool {
	return r == '(' || r == ')' || r == '[' || r == ']' || r == ';' || r == ','
}

// refLex splits text into tokens, string literals and comments; ok=false for an
// unclosed string literal.
func refLex(text string) ([]refTok, bool) {
	A := []rune(text)
	var out []refTok
	i := 0
	for i < len(A) {
		r := A[i]
		switch {
		case unicode.IsSpace(r):
			i++
		case r == ';':
			j := i
			for j < len(A) && A[j] != '\n' {
				j++
			}
			out = append(out, refTok{'c', string(A[i:j])})
			i = j
		case r == '"':
			j := i + 1
			for j < len(A) && A[j] != '"' {
				j++
			}
			if j >= len(A) {
				return nil, false
			}
			out = append(out, refTok{'s', string(A[i : j+1])})
			i = j + 1
		case refLexIsDelim(r):
			out = append(out, refTok{'t', string(A[i : i+1])})
			i++
		default:
			j := i
			for j < len(A) && !unicode.IsSpace(A[j]) && !refLexIsDelim(A[j]) {
				j++
			}
			out = append(out, refTok{'t', string(A[i:j])})
			i = j
		}
	}
	return out, true
}

func vfTrimRightSpace(s string) string {
	A := []rune(s)
	n := len(A)
	for n > 0 && unicode.IsSpace(A[n-1]) {
		n--
	}
	return string(A[:n])
}

func refToksEq(a, b []refTok) bool {
	if len(a) != len(b) {
		return false
	}
	eq := true
	for i := range a {
		if a[i].kind != b[i].kind {
			return false
		}
		x, y := a[i].text, b[i].text
		if a[i].kind == 'c' {
			// a comment is the same comment with or without trailing blanks
			x, y = vfTrimRightSpace(x), vfTrimRightSpace(y)
		}
		r := x == y
		eq = eq && r
	}
	return eq
}

// VerifC14Format: args = [length, prefix text, suffix text]. For prefix + L arbitrary
// characters + suffix: whenever the text lexes (no unclosed string literal),
// IndentByParentheses returns text with exactly the same tokens, string literals and
// comments, and formatting again does not change them either.
func VerifC14Format(args []string) {
	n, _ := strconv.Atoi(args[0])
	runes := []rune(args[1])
	for i := 0; i < n; i++ {
		runes = append(runes, vfAlphabetRune(strconv.Itoa(i)))
	}
	runes = append(runes, []rune(args[2])...)
	text := string(runes)
	want, ok := refLex(text)
	formatted := IndentByParentheses(text)
	vfReach("formatted")
	if !ok {
		return
	}
	vfReach("lexes")
	got, ok1 := refLex(formatted)
	vfAssert(ok1, "formatted text no longer lexes")
	vfAssert(refToksEq(got, want), "IndentByParentheses changes the tokens, string literals or comments")
	twice, ok2 := refLex(IndentByParentheses(formatted))
	vfAssert(ok2 && refToksEq(twice, want), "formatting twice changes the tokens, string literals or comments")
}

// VerifC14FormatExpr: args = [source, notation]. Formatting a whole expression
// never changes what it compiles to.
func VerifC14FormatExpr(args []string) {
	infix := args[1] == "infix"
	want := vfC14Compile(args[0], infix)
	got := vfC14Compile(IndentByParentheses(args[0]), infix)
	twice := vfC14Compile(IndentByParentheses(IndentByParentheses(args[0])), infix)
	vfReach("format-expr")
	vfAssert(got.ok == want.ok && twice.ok == want.ok, "formatting changes whether the expression compiles: "+args[0])
	if want.ok {
		vfAssert(got.dump == want.dump && got.table == want.table, "formatting changes the compiled program: "+args[0])
		vfAssert(twice.dump == want.dump && twice.table == want.table, "formatting twice changes the compiled program: "+args[0])
	}
}
