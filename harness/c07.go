//go:build verif

package eval

func init() {
	vfRegister("VerifC07", VerifC07)
}

var vfCurWorld *vfWorld

func vfDrain(e *Expr) {
	if e.EventChan == nil {
		return
	}
	for len(e.EventChan) > 0 {
		<-e.EventChan
	}
}

func vfC07Compile(w *vfWorld, src, opts, evMode string) *Expr {
	conf := w.config("keys", opts)
	// one Expr may serve several bindings: route the custom operators through a switch
	conf.OperatorMap["p"] = func(c *Ctx, ps []Value) (Value, error) { return vfCurWorld.opP(c, ps) }
	conf.OperatorMap["q"] = func(c *Ctx, ps []Value) (Value, error) { return vfCurWorld.opQ(c, ps) }
	switch evMode {
	case "event":
		conf.CompileOptions[ReportEvent] = true
	case "debug":
		conf.CompileOptions[Debug] = true
	case "both":
		conf.CompileOptions[ReportEvent] = true
		conf.CompileOptions[Debug] = true
	}
	e, err := Compile(conf, src)
	vfAssert(err == nil && e != nil, "well-formed expression compiles under "+opts)
	if evMode != "" {
		e.EventChan = make(chan Event, 1<<14)
	}
	return e
}

// VerifC07: args = [source, variant, event mode ("", "event", "debug"), fault mode, configs].
//
// variant "foot": the compiled program is frozen (every object reachable from
// *Expr); TryEval, Eval, Dump and DumpTable with an arbitrary binding /
// availability must not store into any frozen object nor into a package
// variable on any path. Given that footprint, concurrent calls share only
// memory nobody writes: no data race, results independent of interleaving.
//
// variant "hist": Eval(b1); Eval(b2) on one Expr gives for b2 exactly what a
// fresh compilation gives (sequential-history clause, asserted directly).
func VerifC07(args []string) {
	src, variant, evMode, mode := args[0], args[1], args[2], args[3]
	tree, ok := refRead(src)
	vfAssert(ok, "harness: skeleton readable by the reference reader")
	w1 := newWorld(tree, ".1")
	w1.mayFail, w1.opsFail = mode == "f", true
	w2 := newWorld(tree, ".2")
	w2.mayFail, w2.opsFail = mode == "f", true
	for _, opts := range vfConfigs(args, 4) {
		e := vfC07Compile(w1, src, opts, evMode)
		if variant == "foot" {
			vfFreezeStop(w1)
			vfFreeze(e)
			vfCurWorld = w1
			w1.useAvail = true
			e.TryEval(&Ctx{VariableFetcher: &vfFetcher{w: w1}})
			vfDrain(e)
			w1.useAvail = false
			e.Eval(&Ctx{VariableFetcher: &vfFetcher{w: w1}})
			vfDrain(e)
			Dump(e)
			DumpTable(e, false)
			DumpTable(e, true)
			vfReach("evaluated")
			vfAssert(vfFrozenWrites() == 0, "evaluation / dumping wrote into the compiled program under "+opts)
			vfAssert(vfGlobalWrites() == 0, "evaluation / dumping wrote a package variable under "+opts)
			vfUnfreeze()
			// native replay only (built with -race): the same calls from several goroutines at once, each
			// with its own context; a write into shared memory shows as a data race
			vfConcurrently(func(g int) {
				vals := map[string]Value{}
				for name, v := range w1.vars {
					if v.loaded {
						vals[name] = v.val
					}
				}
				ctx := &Ctx{VariableFetcher: MapVarFetcher(vals)}
				if g%2 == 0 {
					e.Eval(ctx)
					e.TryEval(ctx)
				} else {
					Dump(e)
					DumpTable(e, false)
					DumpTable(e, true)
					e.Eval(ctx)
				}
			}, e, src)
			continue
		}
		vfCurWorld = w1
		e.Eval(&Ctx{VariableFetcher: &vfFetcher{w: w1}})
		vfDrain(e)
		vfCurWorld = w2
		r2, err2 := e.Eval(&Ctx{VariableFetcher: &vfFetcher{w: w2}})
		vfDrain(e)
		// same program (constants are part of the configuration, taken from w1), second binding
		f := vfC07Compile(w1, src, opts, evMode)
		fr2, ferr2 := f.Eval(&Ctx{VariableFetcher: &vfFetcher{w: w2}})
		vfDrain(f)
		vfReach("history")
		vfAssert((err2 == nil) == (ferr2 == nil), "whether Eval fails depends on earlier calls under "+opts)
		if err2 == nil {
			vfAssert(r2 == fr2, "Eval result depends on earlier calls under "+opts)
		}
	}
}
