//go:build verif

package eval

import "strings"

func init() {
	vfRegister("VerifC02", VerifC02)
	vfRegister("VerifC02Directive", VerifC02Directive)
}

var vfAllOpts = []string{"0000", "0001", "0010", "0011", "0100", "0101", "0110", "0111",
	"1000", "1001", "1010", "1011", "1100", "1101", "1110", "1111"}

// vfCosts builds a cost map according to mode:
//
//	""        no CostsMap entries (built-in defaults)
//	"sym"     arbitrary integer costs (|c| ≤ 2^40) for the first variables, p, q and the
//	          `variable` default
//	"nan" "inf" "ninf" "negzero" "half" "huge" "nhuge"   one special float for the first variable
func vfCosts(w *vfWorld, mode string) map[string]float64 {
	costs := map[string]float64{}
	switch mode {
	case "":
		return costs
	case "sym":
		n := 0
		for _, name := range w.order {
			if n >= 3 {
				break
			}
			costs[name] = vfCost("cost." + name)
			n++
		}
		costs["p"] = vfCost("cost.p")
		costs["variable"] = vfCost("cost.variable")
		return costs
	}
	if len(w.order) == 0 {
		return costs
	}
	var zero float64
	special := map[string]float64{
		"nan": zero / zero, "inf": 1 / zero, "ninf": -1 / zero, "negzero": -zero,
		"half": 0.5, "huge": 1e300, "nhuge": -1e300,
	}
	costs[w.order[0]] = special[mode]
	if len(w.order) > 1 {
		costs[w.order[1]] = -3
	}
	return costs
}

// VerifC02: args = [source, fault mode, cost mode, stateless, configs]. The same
// source is compiled under all 16 optimisation subsets (configs "all") or under the
// unoptimised one plus those with Reordering on (configs "ro") and evaluated on one
// symbolic binding that binds every variable.
//
//	A1  any two configurations that both return a value return the same value
//	A2  when strict evaluation of every operand succeeds, every configuration returns it
//	A3  with Reordering off, a configuration returns the unoptimised value whenever
//	    plain left-to-right short-circuit evaluation succeeds
func VerifC02(args []string) {
	src, mode, costMode, stateless := args[0], args[1], args[2], args[3]
	cfgs := vfAllOpts
	if len(args) > 4 && args[4] == "ro" {
		cfgs = []string{"0000", "0001", "0101", "1011", "1111"}
	}
	tree, ok := refRead(src)
	vfAssert(ok, "harness: skeleton readable by the reference reader")
	vfRawConsts = mode == "r"
	w := newWorld(tree, "")
	vfRawConsts = false
	w.opsFail = true
	w.mayWrong = mode == "w"

	type outcome struct {
		r   Value
		err error
	}
	outs := make([]outcome, len(cfgs))
	costs := vfCosts(w, costMode)
	for i, opts := range cfgs {
		conf := w.config(vfRegOf(args), opts)
		if stateless == "pq" {
			conf.StatelessOperators = []string{"p", "q"}
		}
		for k, c := range costs {
			conf.CostsMap[k] = c
		}
		e, err := Compile(conf, src)
		vfAssert(err == nil && e != nil, "well-formed expression compiles under "+opts)
		r, rerr := e.Eval(&Ctx{VariableFetcher: &vfFetcher{w: w}})
		outs[i] = outcome{r, rerr}
	}

	strictV, strictOK := w.refStrict(tree)
	if strictOK {
		vfReach("strict-ok")
	}
	for i, opts := range cfgs {
		o := outs[i]
		if strictOK {
			vfAssert(o.err == nil, "A2: all operands succeed, yet configuration "+opts+" fails")
			vfAssert(o.r == strictV, "A2: all operands succeed, configuration "+opts+" returns another value")
		}
		if opts[3] == '0' && outs[0].err == nil {
			vfReach("a3")
			vfAssert(o.err == nil, "A3: reordering off, unoptimised evaluation succeeds, yet configuration "+opts+" fails")
			vfAssert(o.r == outs[0].r, "A3: reordering off, configuration "+opts+" differs from the unoptimised value")
		}
		for j := 0; j < i; j++ {
			if o.err == nil && outs[j].err == nil {
				vfAssert(o.r == outs[j].r, "A1: configurations "+cfgs[j]+" and "+opts+" both return a value but not the same")
			}
		}
	}
	if outs[0].err != nil {
		vfReach("unopt-fails")
	}
}

// VerifC02Directive: args = [source, directive text, expected options "cf rn fe ro" as
// 0/1/- (- = not mentioned: default on)]. Concrete: the directive form and the
// programmatic form must compile to the same program.
func VerifC02Directive(args []string) {
	src, directive, want := args[0], args[1], args[2]
	tree, ok := refRead(src)
	vfAssert(ok, "harness: skeleton readable by the reference reader")
	w := newWorld(tree, "")
	confD := w.config("keys", "1111")
	for _, o := range vfOptimizations {
		delete(confD.CompileOptions, o)
	}
	before := len(confD.CompileOptions)
	eD, errD := Compile(confD, directive+"\n"+src)
	vfAssert(errD == nil && eD != nil, "source with directives compiles")
	vfAssert(len(confD.CompileOptions) == before, "directives must not leak into the caller's config")

	confP := w.config("keys", "1111")
	for i, o := range vfOptimizations {
		switch want[i] {
		case '0':
			confP.CompileOptions[o] = false
		case '1':
			confP.CompileOptions[o] = true
		default:
			delete(confP.CompileOptions, o)
		}
	}
	eP, errP := Compile(confP, src)
	vfAssert(errP == nil && eP != nil, "source compiles with programmatic options")
	vfReach("directive")
	vfAssert(Dump(eD) == Dump(eP), "directive form and option form give the same tree: "+strings.TrimSpace(directive))
	vfAssert(DumpTable(eD, false) == DumpTable(eP, false), "directive form and option form give the same program: "+strings.TrimSpace(directive))
}
