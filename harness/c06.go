//go:build verif

package eval

import "strconv"

func init() {
	vfRegister("VerifC06Run", VerifC06Run)
	vfRegister("VerifC06Text", VerifC06Text)
}

// vfAnyValue: a value of any supported type, chosen nondeterministically:
// arbitrary int64, arbitrary bool, string, int list, string list, nil, empty list.
func vfAnyValue(name string) Value {
	switch vfChoice("kind."+name, 7) {
	case 0:
		return vfInt64("val." + name)
	case 1:
		return vfBool("val." + name)
	case 2:
		return "str"
	case 3:
		return []int64{1, 2}
	case 4:
		return []string{"a"}
	case 5:
		return nil
	}
	return []string{}
}

type vfAnyFetcher struct {
	vals  map[string]Value
	avail map[string]bool
	part  bool
	any   string // name of the variable that may hold any type ("*" = all, "" = all)
	anon  bool   // names may be arbitrary text: every fetch draws a fresh value
	count int
}

func (f *vfAnyFetcher) value(name string) Value {
	if f.anon {
		f.count++
		return vfAnyValue("#" + strconv.Itoa(f.count))
	}
	if v, ok := f.vals[name]; ok {
		return v
	}
	var v Value
	switch {
	case f.any == "" || f.any == "*" || f.any == name:
		v = vfAnyValue(name)
	case name[0] == 'b':
		v = vfBool("val." + name)
	default:
		v = vfInt64("val." + name)
	}
	f.vals[name] = v
	return v
}
func (f *vfAnyFetcher) Get(_ VariableKey, name string) (Value, error) { return f.value(name), nil }
func (f *vfAnyFetcher) Set(_ VariableKey, _ string, _ Value) error    { return nil }
func (f *vfAnyFetcher) Cached(_ VariableKey, name string) bool {
	if !f.part {
		return true
	}
	if f.anon {
		f.count++
		return vfBool("avail#" + strconv.Itoa(f.count))
	}
	a, ok := f.avail[name]
	if !ok {
		a = vfBool("avail." + name)
		f.avail[name] = a
	}
	return a
}

// VerifC06Run: args = [source, event mode, configs]. A compiled program is
// evaluated (Eval, TryEval) and dumped with variables bound to values of ANY
// supported type (incl. lists and nil): no panic, no hang, LOOP positions
// strictly increasing, exactly one of value / error... (a panic or hang anywhere
// is reported by the executor as a violation of this entry).
func VerifC06Run(args []string) {
	src, evMode := args[0], args[1]
	tree, ok := refRead(src)
	vfAssert(ok, "harness: skeleton readable by the reference reader")
	w := newWorld(tree, "")
	f := &vfAnyFetcher{vals: map[string]Value{}, avail: map[string]bool{}}
	if len(args) > 3 {
		f.any = args[3]
	}
	for _, opts := range vfConfigs(args, 2) {
		conf := w.config("keys", opts)
		switch evMode {
		case "event":
			conf.CompileOptions[ReportEvent] = true
		case "debug":
			conf.CompileOptions[Debug] = true
		case "both":
			conf.CompileOptions[ReportEvent] = true
			conf.CompileOptions[Debug] = true
		}
		e, err := Compile(conf, src)
		vfAssert((e == nil) != (err == nil), "Compile returns exactly one of program and error")
		if err != nil {
			continue
		}
		if evMode != "" {
			e.EventChan = make(chan Event, 1<<14)
		}
		f.part = false
		e.Eval(&Ctx{VariableFetcher: f})
		last := int16(-1)
		if e.EventChan != nil {
			for len(e.EventChan) > 0 {
				ev := <-e.EventChan
				if d, isLoop := ev.Data.(LoopEventData); isLoop {
					vfAssert(d.CurtIdx > last, "program positions are not visited in strictly increasing order")
					last = d.CurtIdx
				}
			}
		}
		f.part = true
		e.TryEval(&Ctx{VariableFetcher: f})
		vfDrain(e)
		Dump(e)
		DumpTable(e, true)
		DumpTable(e, false)
		vfReach("ran")
	}
}

// vfAlphabetRune: an arbitrary Latin-1 character, or one of a few characters
// from the rest of Unicode (spaces, a letter, a digit, the replacement character,
// the last code point).
func vfAlphabetRune(name string) rune {
	k := vfChoice("class."+name, 8)
	if k == 0 {
		r := vfRune("rune." + name)
		vfAssume(r >= 0 && r <= 0xFF)
		return r
	}
	return []rune{0, 0x1680, 0x2028, 0x3000, '中', '٣', 0xFFFD, 0x10FFFF}[k]
}

// VerifC06Text: args = [length, notation ("prefix" | "infix"), prefix text, suffix text].
// Compile on prefix + L arbitrary characters + suffix terminates with a program or
// an error, never a panic and never both nil; a program that compiles also
// evaluates and dumps without panicking.
func VerifC06Text(args []string) {
	n, _ := strconv.Atoi(args[0])
	runes := []rune(args[2])
	for i := 0; i < n; i++ {
		runes = append(runes, vfAlphabetRune(strconv.Itoa(i)))
	}
	runes = append(runes, []rune(args[3])...)
	text := string(runes)
	conf := NewConfig()
	conf.VariableKeyMap["a"] = 1
	conf.VariableKeyMap["b"] = 2
	conf.ConstantMap["K"] = int64(7)
	if args[1] == "infix" {
		conf.CompileOptions[InfixNotation] = true
	}
	conf.CompileOptions[AllowUndefinedVariable] = len(args) > 4 && args[4] == "undef"
	e, err := Compile(conf, text)
	vfReach("compiled")
	vfAssert((e == nil) != (err == nil), "Compile returns exactly one of program and error")
	if err != nil {
		return
	}
	vfReach("accepted")
	f := &vfAnyFetcher{anon: true}
	e.Eval(&Ctx{VariableFetcher: f})
	f.part = true
	e.TryEval(&Ctx{VariableFetcher: f})
	Dump(e)
	DumpTable(e, false)
	IndentByParentheses(text)
}

func init() {
	vfRegister("VerifC06Op", VerifC06Op)
}

// VerifC06Op: args = [operator name, operand count]. Every built-in operator applied to 0..3 operands of
// ANY supported type (arbitrary int64 / bool, strings, lists, nil), directly and as the program
// (name a0 …) compiled with and without optimisations over constants and over variables: a value or an
// error, never a panic.
func VerifC06Op(args []string) {
	name := args[0]
	n, _ := strconv.Atoi(args[1])
	op, ok := vfBuiltin(name)
	vfAssert(ok && op != nil, "operator present")
	params := make([]Value, n)
	src := "(" + name
	vals := map[string]Value{}
	for i := range params {
		params[i] = vfAnyValue("a" + strconv.Itoa(i))
		src += " a" + strconv.Itoa(i)
		vals["a"+strconv.Itoa(i)] = params[i]
	}
	src += ")"
	op(nil, params)
	vfReach("op-ran")
	for _, optimize := range []bool{false, true} {
		// operands as variables …
		conf := NewConfig(Optimizations(optimize))
		for i := range params {
			conf.VariableKeyMap["a"+strconv.Itoa(i)] = VariableKey(i + 1)
		}
		if e, err := Compile(conf, src); err == nil {
			e.Eval(&Ctx{VariableFetcher: MapVarFetcher(vals)})
			e.TryEval(&Ctx{VariableFetcher: MapVarFetcher(vals)})
			Dump(e)
		}
		// … and as constants (folded at compile time when optimisations are on)
		conf = NewConfig(Optimizations(optimize))
		for i := range params {
			conf.ConstantMap["a"+strconv.Itoa(i)] = params[i]
		}
		if e, err := Compile(conf, src); err == nil {
			e.Eval(&Ctx{VariableFetcher: MapVarFetcher(vals)})
			Dump(e)
		}
	}
}
