//go:build verif

package eval

import (
	"strconv"
	"strings"
)

func init() {
	vfRegister("VerifC09", VerifC09)
}

// vfChainSource builds an expression with exactly n nodes over the variable i0:
// nested (+ X i0 … i0) operators with at most `width` operands each, and
// returns the source together with its reference value for i0 = x, folded in
// the documented order (left fold per operator, innermost operand first).
func vfChainSource(n, width int, x int64) (string, int64) {
	var widths []int // operand count of each operator, outermost first
	remaining := n
	for remaining >= 3 {
		k := width
		if remaining-1 < k {
			k = remaining - 1
		}
		widths = append(widths, k)
		remaining -= k // the operator node and its k-1 leaf operands
		if remaining == 1 {
			break
		}
	}
	// remaining is now 1 (the innermost leaf) unless n was too small / left a gap of 2
	// the nested operator is the first operand, so the operand stack stays shallow
	var sb strings.Builder
	for range widths {
		sb.WriteString("(+ ")
	}
	sb.WriteString("i0")
	val := x
	for i := len(widths) - 1; i >= 0; i-- {
		for j := 0; j < widths[i]-1; j++ {
			sb.WriteString(" i0")
			val += x
		}
		sb.WriteString(")")
	}
	return sb.String(), val
}

// vfPairsSource builds an expression with exactly n nodes in which almost every operator is a
// two-leaf operator (+ i0 i0): nested levels (+ <inner> (+ i0 i0) … i0 …). Returns the source and the
// reference value for i0 = x in the engine's fold order.
func vfPairsSource(n int, x int64) (string, int64, bool) {
	type level struct{ k, r int }
	var levels []level
	remaining := n - 3
	if remaining < 0 {
		return "", 0, false
	}
	first := true
	for remaining > 0 {
		k, r := 30, 0
		if first && (remaining%91) == 1 {
			k = 29
		}
		first = false
		if remaining < 1+3*k {
			k, r = (remaining-1)/3, (remaining-1)%3
		}
		if k+r == 0 {
			return "", 0, false
		}
		levels = append(levels, level{k, r})
		remaining -= 1 + 3*k + r
	}
	var sb strings.Builder
	for range levels {
		sb.WriteString("(+ ")
	}
	sb.WriteString("(+ i0 i0)")
	val := x + x
	for i := len(levels) - 1; i >= 0; i-- {
		for j := 0; j < levels[i].k; j++ {
			sb.WriteString(" (+ i0 i0)")
			val += x + x
		}
		for j := 0; j < levels[i].r; j++ {
			sb.WriteString(" i0")
			val += x
		}
		sb.WriteString(")")
	}
	return sb.String(), val, true
}

// VerifC09: args = [kind, parameter, options, event mode].
//
//	"operands" n      one operator with n operands
//	"flatten"  a,b    (and (and ×a) (and ×b)): a+b operands after ReduceNesting
//	"nodes"    n      a program with exactly n nodes
//	"stack"    d      right-nested arithmetic of depth d (operand stack d+1)
//	"deep"     d,b    the same with a control construct at the deepest point (b = if | and | or | ifand), so that
//	                  stack slots beyond the int8 range are actually read by jumps
//	"operands-if" n,p one operator with n operands in the condition / then / else / nested position of an if
//	"flatten-if" a,b  (if (and (and ×a) (and ×b)) …): a+b operands after ReduceNesting, under an if
//	"nodes-pairs" n   a program with exactly n nodes built from two-leaf operators (fast-operator candidates)
//	"marker"   d,name the same with a variable spelled like an internal marker word (fi, end, ...)
//	"marker-str" d,name  the same with such a string literal as an operator's first operand
//
// Either Compile rejects the expression with an error, or the program evaluates
// to the reference result with every narrowing conversion value-preserving, no
// 8/16-bit arithmetic wrapping and every stack / program index in bounds.
func VerifC09(args []string) {
	kind, param, opts, evMode := args[0], args[1], args[2], args[3]
	x := vfInt64("i0")
	tickVal := vfInt64("tick")
	var src string
	var want Value
	markerName := ""
	mustReject, mustAccept := false, false
	switch kind {
	case "operands":
		n, _ := strconv.Atoi(param)
		src = "(+" + strings.Repeat(" i0", n) + ")"
		acc := x
		for j := 1; j < n; j++ {
			acc += x
		}
		want = acc
		mustReject, mustAccept = n > 127, n <= 127 && n >= 2
	case "flatten":
		ab := vfSplit(param, ',')
		a, _ := strconv.Atoi(ab[0])
		b, _ := strconv.Atoi(ab[1])
		src = "(and (and" + strings.Repeat(" (= i0 i0)", a) + ") (and" + strings.Repeat(" (= i0 i0)", b) + "))"
		want = true
		flattened := opts[1] == '1'
		mustReject = (flattened && a+b > 127) || a > 127 || b > 127
		mustAccept = !mustReject
	case "nodes":
		n, _ := strconv.Atoi(param)
		src, want = vfChainSource(n, 100, x)
		limit := 32767
		if evMode != "" {
			// event nodes are added to the program: at most twice the size must still be addressable
			mustAccept = 2*n <= limit
			mustReject = n > limit
		} else {
			mustAccept = n <= limit
			mustReject = n > limit
		}
	case "nodes-pairs":
		n, _ := strconv.Atoi(param)
		ps, pv, ok := vfPairsSource(n, x)
		vfAssert(ok, "harness: a pairs program of this size exists")
		src, want = ps, pv
		limit := 32767
		if evMode != "" {
			mustAccept = 2*n <= limit
		} else {
			mustAccept = n <= limit
		}
		mustReject = n > limit
	case "deep":
		dn := vfSplit(param, ',')
		d, _ := strconv.Atoi(dn[0])
		bottom := ""
		switch dn[1] {
		case "if":
			bottom = "(if (= i0 i0) i0 (tick))"
		case "ifand":
			bottom = "(if (and (= i0 i0) (= i0 i0) (= i0 i0)) i0 (tick))"
		case "and":
			bottom = "(if (and (= i0 i0) (!= i0 i0) (= i0 i0)) (tick) i0)"
		case "or":
			bottom = "(if (or (!= i0 i0) (= i0 i0) (!= i0 i0)) i0 (tick))"
		}
		src = strings.Repeat("(+ i0 ", d) + bottom + strings.Repeat(")", d)
		acc := x
		for j := 0; j < d; j++ {
			acc = x + acc
		}
		want = acc
		mustAccept = true
	case "operands-if":
		np := vfSplit(param, ',')
		n, _ := strconv.Atoi(np[0])
		sum := "(+" + strings.Repeat(" i0", n) + ")"
		acc := x
		for j := 1; j < n; j++ {
			acc += x
		}
		switch np[1] {
		case "then":
			src, want = "(if (= i0 i0) "+sum+" i0)", acc
		case "else":
			src, want = "(if (!= i0 i0) i0 "+sum+")", acc
		case "cond":
			src, want = "(if (and"+strings.Repeat(" (= i0 i0)", n)+") i0 (tick))", x
		case "nested":
			src, want = "(+ i0 (if (= i0 i0) (if (!= i0 i0) (tick) "+sum+") i0))", x+acc
		}
		mustReject, mustAccept = n > 127, n <= 127
	case "flatten-if":
		ab := vfSplit(param, ',')
		a, _ := strconv.Atoi(ab[0])
		b, _ := strconv.Atoi(ab[1])
		src = "(if (and (and" + strings.Repeat(" (= i0 i0)", a) + ") (and" + strings.Repeat(" (= i0 i0)", b) + ")) i0 (tick))"
		want = x
		flattened := opts[1] == '1'
		mustReject = (flattened && a+b > 127) || a > 127 || b > 127
		mustAccept = !mustReject
	case "nullary":
		// (+ i0 … i0 (tick)): n operands, the last one an operand-less operator call
		n, _ := strconv.Atoi(param)
		src = "(+" + strings.Repeat(" i0", n-1) + " (tick))"
		acc := x
		for j := 1; j < n-1; j++ {
			acc += x
		}
		want = acc + tickVal
		mustAccept = true
	case "nullary-nested":
		// right-nested with the operand-less call at the deepest point
		d, _ := strconv.Atoi(param)
		src = strings.Repeat("(+ i0 ", d-1) + "(tick)" + strings.Repeat(")", d-1)
		acc := tickVal
		for j := 0; j < d-1; j++ {
			acc = x + acc
		}
		want = acc
		mustAccept = true
	case "marker", "marker-str":
		// right-nested arithmetic whose leaves are spelled like the words the compiler uses internally
		// for its synthetic nodes (a variable named fi / end / if..., or such a string literal)
		dn := vfSplit(param, ',')
		d, _ := strconv.Atoi(dn[0])
		markerName = dn[1]
		if kind == "marker" {
			src = strings.Repeat("(+ "+markerName+" ", d) + markerName + strings.Repeat(")", d)
			acc := x
			for j := 0; j < d; j++ {
				acc = x + acc
			}
			want = acc
		} else {
			src = strings.Repeat("(+ (tick \""+markerName+"\" i0) ", d) + "i0" + strings.Repeat(")", d)
			acc := x
			for j := 0; j < d; j++ {
				acc = tickVal + acc
			}
			want = acc
		}
		mustAccept = true
	case "stack":
		d, _ := strconv.Atoi(param)
		src = strings.Repeat("(+ i0 ", d) + "i0" + strings.Repeat(")", d)
		acc := x
		for j := 0; j < d; j++ {
			acc = x + acc
		}
		want = acc
		mustAccept = true
	}
	conf := NewConfig()
	conf.VariableKeyMap["i0"] = 1
	if kind == "marker" {
		conf.VariableKeyMap[markerName] = 2
	}
	conf.OperatorMap["tick"] = func(_ *Ctx, ps []Value) (Value, error) { return tickVal, nil }
	for i, o := range vfOptimizations {
		conf.CompileOptions[o] = opts[i] == '1'
	}
	switch evMode {
	case "event":
		conf.CompileOptions[ReportEvent] = true
	case "debug":
		conf.CompileOptions[Debug] = true
	case "both":
		conf.CompileOptions[ReportEvent] = true
		conf.CompileOptions[Debug] = true
	}
	vfNarrow(true)
	e, err := Compile(conf, src)
	vfAssert((e == nil) != (err == nil), "Compile returns exactly one of program and error")
	if mustReject {
		vfReach("rejected")
		vfAssert(err != nil, "an expression beyond the capacity limits was accepted: "+kind+" "+param)
	}
	if mustAccept {
		vfAssert(err == nil, "an expression within the capacity limits was rejected: "+kind+" "+param)
	}
	if err != nil {
		vfAssert(vfNarrowViolations() == 0, "a narrowing conversion or 8/16-bit computation lost information during Compile")
		return
	}
	vfReach("accepted")
	if evMode != "" {
		e.EventChan = make(chan Event, 1<<17)
	}
	vals := map[string]Value{"i0": x}
	if kind == "marker" {
		vals[markerName] = x
	}
	got, gerr := e.Eval(&Ctx{VariableFetcher: MapVarFetcher(vals)})
	vfAssert(gerr == nil, "an accepted program fails to evaluate: "+kind+" "+param)
	vfAssert(got == want, "an accepted program does not evaluate to the reference result: "+kind+" "+param)
	vfDrain(e)
	t, terr := e.TryEval(&Ctx{VariableFetcher: MapVarFetcher(vals)})
	vfAssert(terr == nil && t == want, "TryEval of an accepted program differs from the reference result: "+kind+" "+param)
	vfAssert(vfNarrowViolations() == 0, "a narrowing conversion or 8/16-bit computation lost information")
}
