//go:build verif

package eval

import (
	"fmt"
	"math/rand"
	"strconv"
	"strings"
	"sync"
	"sync/atomic"
)

func init() {
	vfRegister("VerifConform", VerifConform)
	vfRegister("VerifConformGen", VerifConformGen)
}

// vfConformVars is the fixed binding used by the encoder-conformance corpus.
func vfConformVars() map[string]interface{} {
	return map[string]interface{}{
		"a": int64(3), "b": int64(-7), "c": int64(0), "d": int64(100),
		"T": true, "F": false, "s": "hello", "l": []int64{1, 2, 3}, "ls": []string{"x", "y"},
		"v1": int64(1), "v2": int64(2), "v3": int64(3), "v4": int64(4), "v5": int64(5), "v6": int64(6),
		"age": int64(17), "app_version": "1.2.3",
	}
}

// VerifConform: args = [source, options]. options is a comma list out of
// infix, undef, event, off, cf, rn, fe, ro (single optimisation on).
// Observations are compared between the native run and the executor's
// concrete run; any difference means the executor mis-models the tree.
func VerifConform(args []string) {
	src := args[0]
	opts := ""
	if len(args) > 1 {
		opts = args[1]
	}
	if src == "#sync" {
		vfConformSync()
		return
	}
	vals := vfConformVars()
	conf := NewConfig(RegVarAndOp(vals))
	conf.ConstantMap["K"] = int64(42)
	conf.ConstantMap["KT"] = true
	for _, o := range strings.Split(opts, ",") {
		switch o {
		case "infix":
			conf.CompileOptions[InfixNotation] = true
		case "undef":
			conf.CompileOptions[AllowUndefinedVariable] = true
		case "event":
			conf.CompileOptions[ReportEvent] = true
		case "off":
			for _, k := range vfOptimizations {
				conf.CompileOptions[k] = false
			}
		case "cf", "rn", "fe", "ro":
			for _, k := range vfOptimizations {
				conf.CompileOptions[k] = false
			}
			conf.CompileOptions[map[string]CompileOption{"cf": ConstantFolding, "rn": ReduceNesting, "fe": FastEvaluation, "ro": Reordering}[o]] = true
		}
	}
	e, err := Compile(conf, src)
	vfObserve("compile-err-nil", err == nil)
	if err != nil {
		vfObserve("compile-err", err.Error())
		return
	}
	vfObserve("dump", Dump(e))
	vfObserve("table", DumpTable(e, false))
	vfObserve("table-skip", DumpTable(e, true))
	if conf.CompileOptions[ReportEvent] {
		e.EventChan = make(chan Event, 1<<16)
	}
	ctx := NewCtxFromVars(conf, vals)
	r, rerr := e.Eval(ctx)
	vfObserve("eval", fmt.Sprint(r))
	vfObserve("eval-err-nil", rerr == nil)
	if rerr != nil {
		vfObserve("eval-err", rerr.Error())
	}
	if e.EventChan != nil {
		n := 0
		for len(e.EventChan) > 0 {
			ev := <-e.EventChan
			n++
			if ev.EventType == LoopEvent {
				d := ev.Data.(LoopEventData)
				vfObserve("loop", fmt.Sprintf("%d %v %v %v", d.CurtIdx, d.NodeType, d.NodeValue, ev.Stack))
			} else {
				d := ev.Data.(OpEventData)
				vfObserve("op", fmt.Sprintf("%v %s %v %v %v", d.IsFastOp, d.OpName, d.Params, d.Res, d.Err == nil))
			}
		}
		vfObserve("events", n)
	}
	// TryEval with a partial map (half of the names removed, deterministically)
	part := map[string]interface{}{}
	for k, v := range vals {
		if len(k)%2 == 1 && k != "T" {
			part[k] = v
		}
	}
	t, terr := e.TryEval(&Ctx{VariableFetcher: NewMapVarFetcher(part)})
	vfObserve("tryeval", fmt.Sprint(t))
	vfObserve("tryeval-err-nil", terr == nil)
	if e.EventChan != nil {
		for len(e.EventChan) > 0 {
			<-e.EventChan
		}
	}
	vfObserve("indent", IndentByParentheses(src))
}

// VerifConformGen: args = [seed, level, flags]; runs the repository's own
// random expression generator natively / concretely and evaluates the result.
func VerifConformGen(args []string) {
	seed, _ := strconv.ParseInt(args[0], 10, 64)
	level, _ := strconv.Atoi(args[1])
	vals := map[string]interface{}{"a": int64(3), "b": int64(-7), "T": true, "F": false, "x": DNE}
	opts := []GenExprOption{GenVariables(map[string]interface{}{"a": int64(3), "b": int64(-7), "T": true, "F": false})}
	typ := GenBool
	if strings.Contains(args[2], "n") {
		typ = GenNumber
	}
	opts = append(opts, GenType(typ))
	if strings.Contains(args[2], "v") {
		opts = append(opts, EnableVariable)
	}
	if strings.Contains(args[2], "c") {
		opts = append(opts, EnableCondition)
	}
	g := GenerateRandomExpr(level, rand.New(rand.NewSource(seed)), opts...)
	vfObserve("gen-expr", g.Expr)
	vfObserve("gen-res", fmt.Sprint(g.Res))
	delete(vals, "x")
	conf := NewConfig(RegVarAndOp(vals))
	e, err := Compile(conf, g.Expr)
	vfObserve("compile-err-nil", err == nil)
	if err != nil {
		return
	}
	vfObserve("dump", Dump(e))
	r, rerr := e.Eval(NewCtxFromVars(conf, vals))
	vfObserve("eval", fmt.Sprint(r))
	vfObserve("eval-err-nil", rerr == nil)
}

// vfConformSync: the sync primitives a cache or pool inside the library would use, executed
// from their real source on the executor's model of sync/atomic.
func vfConformSync() {
	var m sync.Map
	_, ok := m.Load("a")
	vfObserve("load-empty", ok)
	m.Store("a", 1)
	m.Store("b", "x")
	v, ok := m.Load("a")
	vfObserve("load-a", fmt.Sprint(v, ok))
	v, ok = m.Load("b")
	vfObserve("load-b", fmt.Sprint(v, ok))
	v, ok = m.Load("c")
	vfObserve("load-c", fmt.Sprint(v, ok))
	v, loaded := m.LoadOrStore("a", 5)
	vfObserve("loadorstore-a", fmt.Sprint(v, loaded))
	v, loaded = m.LoadOrStore("d", 7)
	vfObserve("loadorstore-d", fmt.Sprint(v, loaded))
	m.Store("a", 2)
	v, ok = m.Load("a")
	vfObserve("load-a2", fmt.Sprint(v, ok))
	m.Delete("a")
	_, ok = m.Load("a")
	vfObserve("load-deleted", ok)
	n := 0
	m.Range(func(k, v any) bool { n++; return true })
	vfObserve("range", n)
	var mu sync.Mutex
	mu.Lock()
	mu.Unlock()
	mu.Lock()
	vfObserve("trylock-held", mu.TryLock())
	mu.Unlock()
	vfObserve("trylock-free", mu.TryLock())
	var once sync.Once
	c := 0
	once.Do(func() { c++ })
	once.Do(func() { c++ })
	vfObserve("once", c)
	var cnt atomic.Int64
	cnt.Add(3)
	vfObserve("cas", cnt.CompareAndSwap(3, 10))
	vfObserve("cas-miss", cnt.CompareAndSwap(3, 11))
	vfObserve("cnt", cnt.Load())
	var rw sync.RWMutex
	rw.RLock()
	rw.RUnlock()
	rw.Lock()
	rw.Unlock()
	var flag atomic.Bool
	flag.Store(true)
	vfObserve("flag", flag.Load())
	var av atomic.Value
	vfObserve("av-empty", av.Load() == nil)
	av.Store([]int{1, 2})
	vfObserve("av", fmt.Sprint(av.Load()))
	old := av.Swap([]int{3})
	vfObserve("av-swap", fmt.Sprint(old, av.Load()))
	pool := sync.Pool{New: func() any { return new(int) }}
	pi := pool.Get().(*int)
	*pi = 41
	vfObserve("pool-new", *pi)
	fl := make(chan *int, 1)
	var slot *int
	select {
	case slot = <-fl:
	default:
		slot = new(int)
	}
	*slot = 7
	select {
	case fl <- slot:
	default:
	}
	select {
	case fl <- slot:
		vfObserve("chan-full", false)
	default:
		vfObserve("chan-full", true)
	}
	select {
	case g2, ok := <-fl:
		vfObserve("chan-reuse", fmt.Sprint(*g2, ok))
	default:
		vfObserve("chan-reuse", "none")
	}
	var ap atomic.Pointer[int]
	x := 5
	ap.Store(&x)
	vfObserve("aptr", *ap.Load())
}
