//go:build verif

package eval

// Token-level parser harness (C06b). This file reaches below the public API
// (token kinds, newParser, parseAstTree, optimize, check, buildExpr); if the
// current tree renames any of them the loader drops this file and the check
// continues with the public-API harnesses only (reported as DEGRADED).

import "strconv"

func init() { vfRegister("VerifC06Tokens", VerifC06Tokens) }

var vfTokenVocabulary = []token{
	{typ: lParen, val: "("}, {typ: rParen, val: ")"}, {typ: lBracket, val: "["}, {typ: rBracket, val: "]"}, {typ: comma, val: ","},
	{typ: integer, val: "1"}, {typ: str, val: "s"},
	{typ: ident, val: "and"}, {typ: ident, val: "+"}, {typ: ident, val: "!"}, {typ: ident, val: "="}, {typ: ident, val: "if"},
	{typ: ident, val: "let"}, {typ: ident, val: "true"}, {typ: ident, val: "K"}, {typ: ident, val: "a"}, {typ: ident, val: "zz"}, {typ: ident, val: "op"},
	{typ: integer, val: "99999999999999999999"},
}

// VerifC06Tokens: args = [number of tokens, notation, fixed first tokens (indices, comma separated)].
// The parser is driven below the lexer: an arbitrary vector of N tokens from the
// vocabulary (a superset of what the lexer can emit for these words) goes through
// parseAstTree → optimize → check → buildExpr → Eval/Dump. No panic anywhere.
func VerifC06Tokens(args []string) {
	n, _ := strconv.Atoi(args[0])
	conf := NewConfig()
	conf.VariableKeyMap["a"] = 1
	conf.ConstantMap["K"] = int64(7)
	conf.OperatorMap["op"] = func(_ *Ctx, ps []Value) (Value, error) { return int64(len(ps)), nil }
	if args[1] == "infix" {
		conf.CompileOptions[InfixNotation] = true
	}
	p := newParser(conf, "")
	fixed := []string{}
	if len(args) > 2 && args[2] != "" {
		fixed = vfSplit(args[2], ',')
	}
	text := ""
	for i := 0; i < n; i++ {
		var k int
		if i < len(fixed) {
			k, _ = strconv.Atoi(fixed[i])
		} else {
			k = vfChoice("tok."+strconv.Itoa(i), len(vfTokenVocabulary))
		}
		t := vfTokenVocabulary[k]
		p.tokens = append(p.tokens, t)
		if t.typ == str {
			text += " \"" + t.val + "\""
		} else {
			text += " " + t.val
		}
	}
	p.source = text
	ast, err := p.parseAstTree()
	vfReach("parsed")
	vfAssert((ast == nil) != (err == nil), "the parser returns exactly one of tree and error")
	if err != nil {
		return
	}
	vfReach("tree")
	optimize(p.conf, ast)
	res := check(ast)
	if res.err != nil {
		return
	}
	e := buildExpr(p.conf, ast, res.size)
	f := &vfAnyFetcher{vals: map[string]Value{"a": int64(3)}, avail: map[string]bool{}}
	e.Eval(&Ctx{VariableFetcher: f})
	e.TryEval(&Ctx{VariableFetcher: f})
	Dump(e)
	DumpTable(e, false)
}
