//go:build verif

package eval

func init() {
	vfRegister("VerifC12", VerifC12)
}

func vfIsBoolOpName(s string) bool { return refIsAnd(s) || refIsOr(s) }

// VerifC12: args = [source, event option ("event" | "debug" | "both"), fault mode, configs].
//
//	(1) enabling events changes neither Eval/TryEval results nor Dump
//	(2) the OP_EXEC events of an evaluation, read after it has finished (a retaining /
//	    buffered consumer), are exactly the operator applications of that evaluation:
//	    for registered operators the calls they saw themselves, for built-in operators
//	    other than and/or the applications of the reference evaluation of the Dump tree;
//	    and/or events are optional but must be consistent when present
//	(3) LOOP events report strictly increasing positions, each with its own stack copy
func VerifC12(args []string) {
	src, evOpt, mode := args[0], args[1], args[2]
	tree, ok := refRead(src)
	vfAssert(ok, "harness: skeleton readable by the reference reader")
	w := newWorld(tree, "")
	w.mayFail, w.opsFail = mode == "f", true
	for _, opts := range vfConfigs(args, 3) {
		plain, err := Compile(w.config(vfRegOf(args), opts), src)
		vfAssert(err == nil && plain != nil, "well-formed expression compiles under "+opts)
		conf := w.config(vfRegOf(args), opts)
		switch evOpt {
		case "debug":
			conf.CompileOptions[Debug] = true
		case "both":
			conf.CompileOptions[ReportEvent] = true
			conf.CompileOptions[Debug] = true
		default:
			conf.CompileOptions[ReportEvent] = true
		}
		e, err := Compile(conf, src)
		vfAssert(err == nil && e != nil, "well-formed expression compiles with events under "+opts)
		e.EventChan = make(chan Event, 1<<14)

		dump := Dump(e)
		vfAssert(dump == Dump(plain), "event mode changes the decompiled program under "+opts)
		otree, ok := refRead(dump)
		vfAssert(ok, "Dump output readable by the reference reader under "+opts)

		// ---- Eval
		r0, err0 := plain.Eval(&Ctx{VariableFetcher: &vfFetcher{w: w}})
		w.logOn, w.log = true, nil
		r1, err1 := e.Eval(&Ctx{VariableFetcher: &vfFetcher{w: w}})
		implLog := w.log
		w.logOn, w.log = false, nil
		var events []Event
		for len(e.EventChan) > 0 {
			events = append(events, <-e.EventChan)
		}
		vfReach("eval-events")
		vfAssert((err0 == nil) == (err1 == nil), "event mode changes whether Eval fails under "+opts)
		if err0 == nil {
			vfAssert(r0 == r1, "event mode changes the result of Eval under "+opts)
		}

		// reference applications of the optimised tree (built-in operators included)
		w.logOn, w.logBuiltin, w.log = true, true, nil
		w.refEval(otree)
		refLog := w.log
		w.logOn, w.logBuiltin, w.log = false, false, nil

		// registered operators: events == what the operators saw themselves
		var implCalls, refApps []vfRec
		for _, r := range implLog {
			if r.kind == recCall {
				implCalls = append(implCalls, r)
			}
		}
		for _, r := range refLog {
			if r.kind == recCall && !vfIsBoolOpName(r.name) {
				refApps = append(refApps, r)
			}
		}
		var custom, builtin []OpEventData
		lastIdx := int16(-1)
		var prevStack []Value
		for _, ev := range events {
			switch ev.EventType {
			case OpExecEvent:
				d, isOp := ev.Data.(OpEventData)
				vfAssert(isOp, "OP_EXEC event carries OpEventData")
				if d.OpName == "p" || d.OpName == "q" || d.OpName == "z" || d.OpName == "y" {
					custom = append(custom, d)
				}
				if !vfIsBoolOpName(d.OpName) {
					builtin = append(builtin, d)
				} else {
					// optional and/or event: arguments are booleans and the result is their fold
					res, fails, _ := refOp(d.OpName, d.Params)
					vfAssert((d.Err != nil) == fails, "and/or event reports an inconsistent error under "+opts)
					if !fails {
						vfAssert(d.Res == res, "and/or event reports an inconsistent result under "+opts)
					}
				}
			case LoopEvent:
				d, isLoop := ev.Data.(LoopEventData)
				vfAssert(isLoop, "LOOP event carries LoopEventData")
				vfAssert(d.CurtIdx > lastIdx, "LOOP events do not report strictly increasing positions under "+opts)
				lastIdx = d.CurtIdx
				if len(prevStack) > 0 && len(ev.Stack) > 0 {
					vfAssert(&prevStack[0] != &ev.Stack[0], "two LOOP events share one stack buffer under "+opts)
				}
				prevStack = ev.Stack
			default:
				vfAssert(false, "unknown event type under "+opts)
			}
		}
		vfAssert(len(custom) == len(implCalls), "number of OP_EXEC events of registered operators differs from the calls made under "+opts)
		for i := range custom {
			if i < len(implCalls) {
				vfAssert(vfEventMatches(custom[i], implCalls[i]), "OP_EXEC event of a registered operator differs from the call it reports under "+opts)
			}
		}
		// built-in operators (and the custom ones again) against the reference applications;
		// with FastEvaluation and failing fetches the permitted double fetch changes which
		// applications happen, so that combination is left to the operator-side check above
		eff := opts
		if opts == "dflt" {
			eff = "1111"
		}
		if !(eff[2] == '1' && mode == "f") {
			vfReach("builtin-events")
			vfAssert(len(builtin) == len(refApps), "OP_EXEC events are not exactly the operator applications of the evaluation under "+opts)
			for i := range builtin {
				if i < len(refApps) {
					vfAssert(vfEventMatches(builtin[i], refApps[i]), "OP_EXEC event differs from the operator application it reports (arguments at call time, result) under "+opts)
				}
			}
		}

		// ---- TryEval: non-intrusive, events self-consistent
		w.useAvail = true
		t0, terr0 := plain.TryEval(&Ctx{VariableFetcher: &vfFetcher{w: w}})
		t1, terr1 := e.TryEval(&Ctx{VariableFetcher: &vfFetcher{w: w}})
		w.useAvail = false
		vfAssert((terr0 == nil) == (terr1 == nil), "event mode changes whether TryEval fails under "+opts)
		if terr0 == nil {
			vfAssert(t0 == t1, "event mode changes the result of TryEval under "+opts)
		}
		last := int16(-1)
		for len(e.EventChan) > 0 {
			ev := <-e.EventChan
			if ev.EventType == LoopEvent {
				d := ev.Data.(LoopEventData)
				vfAssert(d.CurtIdx > last, "LOOP events of TryEval do not report strictly increasing positions under "+opts)
				last = d.CurtIdx
			}
		}
	}
}

// vfEventMatches compares an OP_EXEC payload with a recorded application.
func vfEventMatches(d OpEventData, r vfRec) bool {
	if d.OpName != r.name || len(d.Params) != r.nargs || (d.Err != nil) != r.failed {
		return false
	}
	eq := true
	if r.nargs > 0 {
		e0 := vfValueEq(d.Params[0], r.a0)
		eq = eq && e0
	}
	if r.nargs > 1 {
		e1 := vfValueEq(d.Params[1], r.a1)
		eq = eq && e1
	}
	if !r.failed {
		e2 := vfValueEq(d.Res, r.res)
		eq = eq && e2
	}
	return eq
}
