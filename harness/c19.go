//go:build verif

package eval

import "strconv"

func init() {
	vfRegister("VerifC19Version", VerifC19Version)
	vfRegister("VerifC19Reject", VerifC19Reject)
	vfRegister("VerifC19Date", VerifC19Date)
	vfRegister("VerifC19DateSym", VerifC19DateSym)
}

// vfVersion builds a version string from a skeleton such as "d.dddd.ddddd" or "1d.9223372036854775808":
// every d is an arbitrary decimal digit, other characters are taken as they are. It returns the text and the component
// values computed independently of strconv.
func vfVersion(name, skeleton string) (string, []int64) {
	var bytes []byte
	var comps []int64
	cur := int64(0)
	n := 0
	for i := 0; i < len(skeleton); i++ {
		if skeleton[i] == '.' {
			bytes = append(bytes, '.')
			comps = append(comps, cur)
			cur = 0
			continue
		}
		c := skeleton[i] // a concrete digit, or d = an arbitrary one
		if c == 'd' {
			c = vfByte(name + "." + strconv.Itoa(n))
			n++
			vfAssume(c >= '0' && c <= '9')
		}
		bytes = append(bytes, c)
		// the component value saturates at 10000 (= "too large"), so that components of any
		// number of digits are classified without wrapping in the reference itself
		if cur <= 9999 {
			cur = cur*10 + int64(c-'0')
		}
		if cur > 9999 {
			cur = 10000
		}
	}
	comps = append(comps, cur)
	return string(bytes), comps
}

// VerifC19Version: args = [operator, skeleton a, skeleton b, valid length ("" = default 3)].
// For versions whose first N components are all ≤ 9999: both are accepted and the
// encoded integers compare like the versions compared component-wise (missing
// components read as 0, components beyond N ignored). A component ≥ 10000 within the
// first N is rejected.
func VerifC19Version(args []string) {
	opName, ska, skb, nArg := args[0], args[1], args[2], args[3]
	op, _ := vfBuiltin(opName)
	vfAssert(op != nil, "operator present")
	a, ca := vfVersion("a", ska)
	b, cb := vfVersion("b", skb)
	n := 3
	pa, pb := []Value{a}, []Value{b}
	if nArg != "" {
		n, _ = strconv.Atoi(nArg)
		pa, pb = []Value{a, int64(n)}, []Value{b, int64(n)}
	}
	ra, erra := op(nil, pa)
	rb, errb := op(nil, pb)
	comp := func(c []int64, i int) int64 {
		if i < len(c) {
			return c[i]
		}
		return 0
	}
	okA, okB := true, true
	for i := 0; i < n; i++ {
		okA = okA && comp(ca, i) <= 9999
		okB = okB && comp(cb, i) <= 9999
	}
	if okA {
		vfAssert(erra == nil, "a version whose components are all ≤ 9999 is rejected")
	} else {
		vfReach("too-large")
		vfAssert(erra != nil, "a version with a component ≥ 10000 within the valid length is accepted")
	}
	if okB {
		vfAssert(errb == nil, "a version whose components are all ≤ 9999 is rejected")
	} else {
		vfAssert(errb != nil, "a version with a component ≥ 10000 within the valid length is accepted")
	}
	if !okA || !okB {
		return
	}
	ea, isA := ra.(int64)
	eb, isB := rb.(int64)
	vfAssert(isA && isB, "the encoding is an int64")
	// reference comparison
	cmp := 0
	for i := 0; i < n; i++ {
		x, y := comp(ca, i), comp(cb, i)
		if cmp == 0 && x < y {
			cmp = -1
		}
		if cmp == 0 && x > y {
			cmp = 1
		}
	}
	vfReach("ordered")
	switch cmp {
	case -1:
		vfReach("less")
		vfAssert(ea < eb, "version a < version b but the encodings do not compare that way")
	case 1:
		vfAssert(ea > eb, "version a > version b but the encodings do not compare that way")
	default:
		vfReach("equal")
		vfAssert(ea == eb, "equal versions have different encodings")
	}
}

// VerifC19Reject: args = [operator, form].
//
//	"nondigit:<skeleton>:<pos>"  the byte at pos is an arbitrary non-digit, non-sign, non-dot byte → rejected
//	"empty:<text>"               a text with an empty component within the valid length → rejected
//	"length"                     an arbitrary valid length outside 1..4 → rejected; inside → accepted
//	"types"                      wrong parameter types / counts → error
func VerifC19Reject(args []string) {
	op, _ := vfBuiltin(args[0])
	vfAssert(op != nil, "operator present")
	form := vfSplit(args[1], ':')
	switch form[0] {
	case "nondigit":
		sk := form[1]
		pos, _ := strconv.Atoi(form[2])
		var bytes []byte
		for i := 0; i < len(sk); i++ {
			switch {
			case i == pos:
				c := vfByte("bad")
				vfAssume(!(c >= '0' && c <= '9') && c != '+' && c != '-' && c != '.')
				bytes = append(bytes, c)
			case sk[i] == '.':
				bytes = append(bytes, '.')
			default:
				c := vfByte("d" + strconv.Itoa(i))
				vfAssume(c >= '0' && c <= '9')
				bytes = append(bytes, c)
			}
		}
		_, err := op(nil, []Value{string(bytes), int64(4)})
		vfReach("nondigit")
		vfAssert(err != nil, "a version with a non-numeric component is accepted")
	case "empty":
		_, err := op(nil, []Value{form[1], int64(4)})
		vfReach("empty")
		vfAssert(err != nil, "a version with an empty component is accepted: "+form[1])
	case "length":
		n := vfInt64("validLen")
		r, err := op(nil, []Value{"1.2.3.4", n})
		if n < 1 || n > 4 {
			vfReach("bad-length")
			vfAssert(err != nil, "a valid length outside 1..4 is accepted")
		} else {
			vfReach("good-length")
			vfAssert(err == nil && r != nil, "a valid length inside 1..4 is rejected")
		}
	case "datetypes":
		_, e0 := op(nil, []Value{})
		_, e1 := op(nil, []Value{int64(1)})
		_, e2 := op(nil, []Value{"2020-01-01", "2006-01-02", "x"})
		_, e3 := op(nil, []Value{nil})
		_, e4 := op(nil, []Value{"2020-01-01", int64(3)})
		_, e5 := op(nil, []Value{true, "2006-01-02"})
		vfReach("types")
		vfAssert(e0 != nil && e1 != nil && e2 != nil && e3 != nil && e4 != nil && e5 != nil, "wrong parameter types or counts are accepted by a date operator")
	case "types":
		_, e0 := op(nil, []Value{})
		_, e1 := op(nil, []Value{int64(1)})
		_, e2 := op(nil, []Value{"1.2", "3"})
		_, e3 := op(nil, []Value{"1.2", int64(3), int64(3)})
		_, e4 := op(nil, []Value{nil})
		_, e5 := op(nil, []Value{"1.2", true})
		vfReach("types")
		vfAssert(e0 != nil && e1 != nil && e2 != nil && e3 != nil && e4 != nil && e5 != nil, "wrong parameter types or counts are accepted")
	}
}

// VerifC19Date: args = [operator, text, layout ("" = none), expected unix seconds or "error"].
// Concrete table: the operator selects the documented default layout or honours the supplied
// one and returns UTC Unix seconds; unparsable text and wrong parameters are errors.
func VerifC19Date(args []string) {
	op, _ := vfBuiltin(args[0])
	vfAssert(op != nil, "operator present")
	params := []Value{args[1]}
	if args[2] != "" {
		params = append(params, args[2])
	}
	r, err := op(nil, params)
	vfReach("date")
	if args[3] == "error" {
		vfAssert(err != nil, "unparsable date / wrong parameters accepted: "+args[0]+" "+args[1]+" "+args[2])
		return
	}
	want, _ := strconv.ParseInt(args[3], 10, 64)
	vfAssert(err == nil, "date operator fails: "+args[0]+" "+args[1]+" "+args[2])
	vfAssert(r == want, "date operator does not return UTC Unix seconds: "+args[0]+" "+args[1]+" "+args[2])
}

// VerifC19DateSym: args = [operator, supplied layout ("" = none), expected layout].
// The text is opaque (arbitrary); time.Parse on it is an uninterpreted function,
// so the assertion says: for EVERY text the operator parses it with exactly the
// documented layout and returns that parse's Unix seconds, and fails iff it fails.
func VerifC19DateSym(args []string) {
	op, _ := vfBuiltin(args[0])
	vfAssert(op != nil, "operator present")
	supplied, expected := args[1], args[2]
	s := vfOpaqueDate("s", expected)
	params := []Value{s}
	if supplied != "" {
		params = append(params, supplied)
	}
	r, err := op(nil, params)
	wantUnix, wantOK := vfParsedUnix("s", expected)
	vfReach("date-sym")
	vfAssert((err == nil) == wantOK, "the operator does not fail exactly when parsing with the documented layout fails: "+args[0])
	if wantOK {
		vfAssert(err == nil && r == wantUnix, "the operator does not return the Unix seconds of the documented layout's parse: "+args[0])
	}
}
