//go:build verif

package eval

// Fallback for internals.go, used only when the built-in operator table is not
// reachable under its pinned name: a built-in operator is applied through the
// public API, by compiling the one-operator program `(name a0 a1 …)` without
// optimisations and evaluating it with the operands bound to a0, a1, ….

import "strconv"

type vfParamFetcher struct{ params []Value }

func (f *vfParamFetcher) Get(key VariableKey, _ string) (Value, error) {
	return f.params[int(key)], nil
}
func (f *vfParamFetcher) Set(_ VariableKey, _ string, _ Value) error { return nil }
func (f *vfParamFetcher) Cached(_ VariableKey, _ string) bool        { return true }

var vfFallbackNames = []string{"!", "!=", "%", "&", "&&", "*", "+", "-", "/", "<", "<=", "=", "==", ">", ">=", "add", "and", "between", "date", "datetime", "div", "eq", "ge", "gt", "in", "le", "lt", "mod", "mul", "ne", "not", "or", "overlap", "sub", "t_date", "t_time", "t_version", "td_date", "td_time", "to_date", "to_datetime", "to_version", "version", "xor", "|", "||"}

func vfBuiltin(name string) (Operator, bool) {
	known := false
	for _, n := range vfFallbackNames {
		if n == name {
			known = true
		}
	}
	if !known {
		return nil, false
	}
	shortCircuit := false
	switch name {
	case "and", "or", "&", "|", "&&", "||":
		shortCircuit = true
	}
	return func(_ *Ctx, params []Value) (Value, error) {
		if shortCircuit {
			// the evaluator short-circuits and/or itself and does not apply the operator when the
			// last operand decides, so operand counts below 2 and non-Boolean operands cannot be
			// observed through the public API: those cases are not decided in fallback mode
			ok := len(params) >= 2
			for _, p := range params {
				if _, isBool := p.(bool); !isBool {
					ok = false
				}
			}
			vfAssume(ok)
		}
		conf := NewConfig(Optimizations(false))
		src := "(" + name
		for i := range params {
			v := "a" + strconv.Itoa(i)
			conf.VariableKeyMap[v] = VariableKey(i)
			src += " " + v
		}
		src += ")"
		e, err := Compile(conf, src)
		if err != nil {
			return nil, err
		}
		return e.Eval(&Ctx{VariableFetcher: &vfParamFetcher{params: params}})
	}, true
}

func vfBuiltinNames() []string { return vfFallbackNames }

func vfBuiltinCall(name string, params []Value) (Value, error) {
	op, _ := vfBuiltin(name)
	return op(nil, params)
}
