//go:build verif

package eval

// The symbolic "world" shared by the shape-based harnesses: variables with
// arbitrary values / failures / availability, symbolic constants, two custom
// operators that may fail, an effect log, and the reference evaluators
// (left-to-right short-circuit, strict, trace, Kleene).

import (
	"errors"
	"strconv"
)

var (
	errVfArity   = errors.New("vf: custom operator arity")
	errVfType    = errors.New("vf: custom operator operand type")
	errVfP       = errors.New("vf: operator p failed")
	errVfQ       = errors.New("vf: operator q failed")
	errVfUnknown = errors.New("vf: unknown variable")
)

type vfVar struct {
	name      string
	isBool    bool
	idx       int
	key       VariableKey
	err       error // the sentinel this variable's fetch fails with
	loaded    bool
	val       Value
	wrong     Value
	fail      bool
	isWrong   bool
	avail     bool
	availSet  bool
	comp      Value
	compSet   bool
	avail2    bool
	avail2Set bool
	noWrong   bool // occurs where and/or needs a boolean (wrong type excluded by the quantifier)
}

const (
	recGet  = 1
	recCall = 2
)

type vfRec struct {
	kind   int
	name   string
	nargs  int
	a0, a1 Value
	res    Value
	failed bool
}

type vfWorld struct {
	vars   map[string]*vfVar
	order  []string
	consts map[string]Value
	ops    map[string]Operator

	// behaviour switches
	mayFail  bool // fetches may fail
	mayWrong bool // variables may hold a value of the wrong type
	wrongNil bool // … and that value is nil
	opsFail  bool // custom operators may fail
	suffix   string

	pFailT, pFailF, pFlip bool
	qBad, qAdd            int64
	zVal                  int64
	zFail                 bool
	yVal                  bool
	opsLoaded             bool
	failValue             bool // failing custom operators return a zero value together with the error

	log        []vfRec
	logOn      bool
	logBuiltin bool // reference: also record applications of built-in operators
	pCalls     int
	qCalls     int
	zCalls     int
	useAvail   bool
	mask2      bool // availability is the larger mask M′ ⊇ M
	completing bool // unavailable variables read their completion value
	relaxFast  bool // reference: two-leaf and/or fetch both leaves (FastEvaluation)
	// completion values used instead of the primary ones for unavailable variables
	completion map[string]Value
}

// vfOptimizations: the four optimisation switches in the order of the option strings
// ("1010" = ConstantFolding + FastEvaluation) used by all harnesses.
var vfOptimizations = []CompileOption{ConstantFolding, ReduceNesting, FastEvaluation, Reordering}

func vfIsBoolName(s string) bool {
	return len(s) > 0 && (s[0] == 'b' || (len(s) > 1 && s[0] == 'K' && s[1] == 'B'))
}
func vfIsConstName(s string) bool { return len(s) > 1 && s[0] == 'K' && (s[1] == 'B' || s[1] == 'I') }
func vfIsVarName(s string) bool {
	if s == "fi" {
		return true // an integer variable spelled like the compiler's internal end-if marker
	}
	if len(s) < 2 || (s[0] != 'b' && s[0] != 'i' && s[0] != 's') {
		return false
	}
	for i := 1; i < len(s); i++ {
		if s[i] < '0' || s[i] > '9' {
			return false
		}
	}
	return true
}

// newWorld declares the variables and constants that occur in the tree.
// Values are created lazily (on first use) so that unused names cost nothing.
// vfRawConsts makes integer constants plain Go ints (a ConstantMap value keeps its Go type; only
// int64 is an integer to the operators).
var vfRawConsts bool

func newWorld(tree *refNode, suffix string) *vfWorld {
	w := &vfWorld{vars: map[string]*vfVar{}, consts: map[string]Value{}, ops: map[string]Operator{}, suffix: suffix}
	var leaves []*refNode
	refLeaves(tree, &leaves)
	for _, l := range leaves {
		if l.isLit {
			continue
		}
		switch {
		case vfIsConstName(l.atom):
			if _, ok := w.consts[l.atom]; !ok {
				if vfIsBoolName(l.atom) {
					w.consts[l.atom] = vfBool(l.atom + suffix)
				} else if vfRawConsts {
					w.consts[l.atom] = int(vfInt64(l.atom + suffix))
				} else {
					w.consts[l.atom] = vfInt64(l.atom + suffix)
				}
			}
		case vfIsVarName(l.atom):
			if _, ok := w.vars[l.atom]; !ok {
				v := &vfVar{name: l.atom, isBool: l.atom[0] == 'b', idx: len(w.order)}
				v.err = errors.New("vf: fetch of " + l.atom + " failed")
				v.key = VariableKey(len(w.order) + 1)
				w.vars[l.atom] = v
				w.order = append(w.order, l.atom)
			}
		}
	}
	w.ops["p"] = w.opP
	w.ops["q"] = w.opQ
	w.ops["z"] = w.opZ
	w.ops["y"] = w.opY
	w.markBoolCtx(tree, false)
	return w
}

// markBoolCtx finds the variables whose value flows directly into an and/or
// operand (possibly through if-branches): the property's quantifier excludes
// wrong-typed values there.
func (w *vfWorld) markBoolCtx(n *refNode, ctx bool) {
	if n.leaf {
		if v := w.vars[n.atom]; v != nil && ctx && !n.isLit {
			if _, isConst := w.consts[n.atom]; !isConst {
				v.noWrong = true
			}
		}
		return
	}
	switch {
	case refIsAnd(n.op) || refIsOr(n.op):
		for _, k := range n.kids {
			w.markBoolCtx(k, true)
		}
	case n.op == "if" && len(n.kids) == 3:
		w.markBoolCtx(n.kids[0], false)
		w.markBoolCtx(n.kids[1], ctx)
		w.markBoolCtx(n.kids[2], ctx)
	default:
		for _, k := range n.kids {
			w.markBoolCtx(k, false)
		}
	}
}

func (w *vfWorld) load(v *vfVar) {
	if v.loaded {
		return
	}
	v.loaded = true
	if v.name[0] == 's' {
		// a string variable: one of two texts, chosen arbitrarily
		if vfBool("val." + v.name + w.suffix) {
			v.val = "x"
		} else {
			v.val = "y"
		}
		v.wrong = int64(5)
	} else if v.isBool {
		v.val = vfBool("val." + v.name + w.suffix)
		v.wrong = int64(5)
	} else {
		v.val = vfInt64("val." + v.name + w.suffix)
		v.wrong = true
	}
	if w.wrongNil {
		v.wrong = nil // the wrong-typed value is nil (a variable bound to no value at all)
	}
	if w.mayFail {
		v.fail = vfBool("fail." + v.name + w.suffix)
	}
	if w.mayWrong && !v.noWrong {
		v.isWrong = vfBool("wrong." + v.name + w.suffix)
	}
}

func (w *vfWorld) loadOps() {
	if w.opsLoaded {
		return
	}
	w.opsLoaded = true
	w.pFlip = vfBool("p.flip" + w.suffix)
	w.qAdd = vfInt64("q.add" + w.suffix)
	w.zVal = vfInt64("z.val" + w.suffix)
	w.yVal = vfBool("y.val" + w.suffix)
	if w.opsFail {
		w.zFail = vfBool("z.fail" + w.suffix)
	}
	if w.opsFail {
		w.pFailT = vfBool("p.failT" + w.suffix)
		w.pFailF = vfBool("p.failF" + w.suffix)
		w.qBad = vfInt64("q.bad" + w.suffix)
	}
}

func (w *vfWorld) record(r vfRec) {
	if w.logOn {
		w.log = append(w.log, r)
	}
}

// fetch is the single place where a variable is read (by the real engine
// through vfFetcher.Get and by the reference evaluators).
func (w *vfWorld) fetch(name string) (Value, error) {
	v := w.vars[name]
	if v == nil {
		return nil, errVfUnknown
	}
	w.load(v)
	w.record(vfRec{kind: recGet, name: name})
	if w.mayFail && v.fail {
		return nil, v.err
	}
	if w.completing || w.mask2 {
		// Variables outside the (first) availability mask read an independent
		// completion value; those never consulted by TryEval are unconstrained anyway.
		if v.availSet && !v.avail {
			if !v.compSet {
				v.compSet = true
				if v.isBool {
					v.comp = vfBool("comp." + name + w.suffix)
				} else {
					v.comp = vfInt64("comp." + name + w.suffix)
				}
			}
			return v.comp, nil
		}
	}
	if w.mayWrong && !v.noWrong && v.isWrong {
		return v.wrong, nil
	}
	return v.val, nil
}

func (w *vfWorld) available(name string) bool {
	v := w.vars[name]
	if v == nil {
		return false
	}
	if !v.availSet {
		v.avail = vfBool("avail." + name + w.suffix)
		v.availSet = true
	}
	if w.mask2 {
		// M′ ⊇ M: everything available under M stays available
		if v.avail {
			return true
		}
		if !v.avail2Set {
			v.avail2 = vfBool("avail2." + name + w.suffix)
			v.avail2Set = true
		}
		return v.avail2
	}
	return v.avail
}

// custom operator p: bool → bool, may fail depending on its argument
func (w *vfWorld) opP(_ *Ctx, ps []Value) (Value, error) {
	w.loadOps()
	w.pCalls++
	rec := vfRec{kind: recCall, name: "p", nargs: len(ps)}
	if len(ps) > 0 {
		rec.a0 = ps[0]
	}
	if len(ps) != 1 {
		rec.failed = true
		w.record(rec)
		return nil, errVfArity
	}
	b, ok := ps[0].(bool)
	if !ok {
		rec.failed = true
		w.record(rec)
		return nil, errVfType
	}
	if w.opsFail {
		if (b && w.pFailT) || (!b && w.pFailF) {
			rec.failed = true
			w.record(rec)
			if w.failValue {
				return false, errVfP
			}
			return nil, errVfP
		}
	}
	res := b != w.pFlip
	rec.res = res
	w.record(rec)
	return res, nil
}

// custom operator q: int → int, fails on one (arbitrary) argument value
func (w *vfWorld) opQ(_ *Ctx, ps []Value) (Value, error) {
	w.loadOps()
	w.qCalls++
	rec := vfRec{kind: recCall, name: "q", nargs: len(ps)}
	if len(ps) > 0 {
		rec.a0 = ps[0]
	}
	if len(ps) != 1 {
		rec.failed = true
		w.record(rec)
		return nil, errVfArity
	}
	x, ok := ps[0].(int64)
	if !ok {
		rec.failed = true
		w.record(rec)
		return nil, errVfType
	}
	if w.opsFail && x == w.qBad {
		rec.failed = true
		w.record(rec)
		if w.failValue {
			return int64(0), errVfQ
		}
		return nil, errVfQ
	}
	res := x + w.qAdd
	rec.res = res
	w.record(rec)
	return res, nil
}

// custom operator z: no operands → int, one arbitrary value per world, may fail
func (w *vfWorld) opZ(_ *Ctx, ps []Value) (Value, error) {
	w.loadOps()
	w.zCalls++
	rec := vfRec{kind: recCall, name: "z", nargs: len(ps)}
	if len(ps) != 0 {
		rec.failed = true
		w.record(rec)
		return nil, errVfArity
	}
	if w.opsFail && w.zFail {
		rec.failed = true
		w.record(rec)
		return nil, errVfQ
	}
	rec.res = w.zVal
	w.record(rec)
	return w.zVal, nil
}

// custom operator y: no operands → bool, one arbitrary value per world, fails together with z
func (w *vfWorld) opY(_ *Ctx, ps []Value) (Value, error) {
	w.loadOps()
	w.zCalls++
	rec := vfRec{kind: recCall, name: "y", nargs: len(ps)}
	if len(ps) != 0 {
		rec.failed = true
		w.record(rec)
		return nil, errVfArity
	}
	if w.opsFail && w.zFail {
		rec.failed = true
		w.record(rec)
		return nil, errVfQ
	}
	rec.res = w.yVal
	w.record(rec)
	return w.yVal, nil
}

// ---------------------------------------------------------------------------
// the fetcher handed to the real engine

type vfFetcher struct {
	w *vfWorld
}

func (f *vfFetcher) Get(varKey VariableKey, strKey string) (Value, error) {
	return f.w.fetch(strKey)
}

func (f *vfFetcher) Set(varKey VariableKey, strKey string, val Value) error { return nil }

func (f *vfFetcher) Cached(varKey VariableKey, strKey string) bool {
	if !f.w.useAvail {
		return true
	}
	return f.w.available(strKey)
}

// ---------------------------------------------------------------------------
// configuration

// vfConfig builds a Config for the world. reg: "keys" (explicit keys),
// "undef" (AllowUndefinedVariable, nothing registered), "shadow" (every
// constant name is also registered as a variable: the constant must win).
// opts: 4 characters 0/1 for ConstantFolding, ReduceNesting, FastEvaluation,
// Reordering.
func (w *vfWorld) config(reg string, opts string) *Config {
	conf := NewConfig()
	for name, c := range w.consts {
		conf.ConstantMap[name] = c
	}
	switch reg {
	case "undef":
		conf.CompileOptions[AllowUndefinedVariable] = true
	case "shadow":
		for _, name := range w.order {
			conf.VariableKeyMap[name] = w.vars[name].key
		}
		k := len(w.order) + 1
		for name := range w.consts {
			conf.VariableKeyMap[name] = VariableKey(k)
			k++
		}
	default:
		for _, name := range w.order {
			conf.VariableKeyMap[name] = w.vars[name].key
		}
	}
	for name, op := range w.ops {
		conf.OperatorMap[name] = op
	}
	if opts != "dflt" { // "dflt": the four switches are left unset (the library's defaults apply: all on)
		for i, o := range vfOptimizations {
			conf.CompileOptions[o] = i < len(opts) && opts[i] == '1'
		}
	}
	return conf
}

func vfOptNames(opts string) string {
	s := ""
	names := []string{"cf", "rn", "fe", "ro"}
	for i := 0; i < len(opts) && i < 4; i++ {
		if opts[i] == '1' {
			s += names[i] + " "
		}
	}
	return s
}

// ---------------------------------------------------------------------------
// reference evaluators

// refValue resolves a leaf: literal, then constant, then variable.
func (w *vfWorld) refLeaf(n *refNode) (Value, error) {
	if n.isLit {
		return n.lit, nil
	}
	if c, ok := w.consts[n.atom]; ok {
		return c, nil
	}
	if ph, ok := vfPlaceholder(n.atom); ok {
		return ph, nil
	}
	return w.fetch(n.atom)
}

// refEval is the documented semantics: left to right, and/or stop at the
// first deciding operand, if evaluates its condition and one branch.
func (w *vfWorld) refEval(n *refNode) (Value, error) {
	if n.leaf {
		return w.refLeaf(n)
	}
	switch {
	case n.op == "if":
		c, err := w.refEval(n.kids[0])
		if err != nil {
			return nil, err
		}
		b, ok := c.(bool)
		if !ok {
			return nil, errRefBuiltin
		}
		if b {
			return w.refEval(n.kids[1])
		}
		return w.refEval(n.kids[2])
	case refIsAnd(n.op) || refIsOr(n.op):
		isAnd := refIsAnd(n.op)
		if w.relaxFast && len(n.kids) == 2 && n.kids[0].leaf && n.kids[1].leaf {
			// permitted relaxation: both leaf operands are fetched together
			a, err := w.refLeaf(n.kids[0])
			if err != nil {
				return nil, err
			}
			b, err := w.refLeaf(n.kids[1])
			if err != nil {
				return nil, err
			}
			return w.refApply(n.op, []Value{a, b})
		}
		for _, k := range n.kids {
			v, err := w.refEval(k)
			if err != nil {
				return nil, err
			}
			b, ok := v.(bool)
			// operands of and/or are boolean-typed or failing (property quantifier)
			vfAssume(ok)
			if isAnd && !b {
				return false, nil
			}
			if !isAnd && b {
				return true, nil
			}
		}
		return isAnd, nil
	}
	args := make([]Value, len(n.kids))
	for i, k := range n.kids {
		v, err := w.refEval(k)
		if err != nil {
			return nil, err
		}
		args[i] = v
	}
	return w.refApply(n.op, args)
}

func (w *vfWorld) refApply(op string, args []Value) (Value, error) {
	if f, ok := w.ops[op]; ok {
		return f(nil, args)
	}
	res, fails, known := refOp(op, args)
	vfAssume(known)
	if w.logBuiltin {
		rec := vfRec{kind: recCall, name: op, nargs: len(args), failed: fails, res: res}
		if len(args) > 0 {
			rec.a0 = args[0]
		}
		if len(args) > 1 {
			rec.a1 = args[1]
		}
		w.record(rec)
	}
	if fails {
		return nil, errRefBuiltin
	}
	return res, nil
}

// refStrict evaluates every operand of every operator (no short-circuit); ok
// is false when anything anywhere fails.
func (w *vfWorld) refStrict(n *refNode) (Value, bool) {
	if n.leaf {
		v, err := w.refLeaf(n)
		return v, err == nil
	}
	args := make([]Value, len(n.kids))
	allOK := true
	for i, k := range n.kids {
		v, ok := w.refStrict(k)
		if !ok {
			allOK = false
		}
		args[i] = v
	}
	if !allOK {
		return nil, false
	}
	if n.op == "if" {
		b, ok := args[0].(bool)
		if !ok {
			return nil, false
		}
		if b {
			return args[1], true
		}
		return args[2], true
	}
	if refIsAnd(n.op) || refIsOr(n.op) {
		for _, a := range args {
			_, ok := a.(bool)
			vfAssume(ok)
		}
	}
	v, err := w.refApply(n.op, args)
	return v, err == nil
}

// refKleene is strong three-valued evaluation over availability: and/or are
// decided by any available deciding operand, `if` follows an available
// condition, every other operator is definite iff all its operands are.
// Sub-expressions are assumed not to fail (C05 quantifier).
func (w *vfWorld) refKleene(n *refNode) (v Value, definite bool) {
	if n.leaf {
		if n.isLit {
			return n.lit, true
		}
		if c, ok := w.consts[n.atom]; ok {
			return c, true
		}
		if ph, ok := vfPlaceholder(n.atom); ok {
			return ph, true
		}
		if !w.available(n.atom) {
			return nil, false
		}
		val, err := w.fetch(n.atom)
		vfAssume(err == nil)
		return val, true
	}
	switch {
	case n.op == "if":
		c, def := w.refKleene(n.kids[0])
		if !def {
			return nil, false
		}
		b, ok := c.(bool)
		vfAssume(ok)
		if b {
			return w.refKleene(n.kids[1])
		}
		return w.refKleene(n.kids[2])
	case refIsAnd(n.op) || refIsOr(n.op):
		isAnd := refIsAnd(n.op)
		allDef := true
		for _, k := range n.kids {
			v, def := w.refKleene(k)
			if !def {
				allDef = false
				continue
			}
			b, ok := v.(bool)
			vfAssume(ok)
			if isAnd && !b {
				return false, true
			}
			if !isAnd && b {
				return true, true
			}
		}
		if !allDef {
			return nil, false
		}
		return isAnd, true
	}
	args := make([]Value, len(n.kids))
	allDef := true
	for i, k := range n.kids {
		v, def := w.refKleene(k)
		if !def {
			allDef = false
		}
		args[i] = v
	}
	if !allDef {
		return nil, false
	}
	res, err := w.refApply(n.op, args)
	vfAssume(err == nil)
	return res, true
}

func vfItoa(i int) string { return strconv.Itoa(i) }

// treeEq compares the source tree with a tree re-read from Dump: same
// operators, same variables, and constants / literals of equal value (Dump
// prints a constant's value, not its name).
func (w *vfWorld) treeEq(a, b *refNode) bool {
	if a.leaf != b.leaf {
		return false
	}
	if a.leaf {
		_, aConst := w.consts[a.atom]
		aVal := a.isLit || aConst
		_, bPh := vfPlaceholder(b.atom)
		_, bConst := w.consts[b.atom]
		bVal := b.isLit || bPh || bConst
		if aVal != bVal {
			return false
		}
		if !aVal {
			return a.atom == b.atom
		}
		va, _ := w.refLeaf(a)
		vb, _ := w.refLeaf(b)
		return vfValueEq(va, vb)
	}
	if a.op != b.op || len(a.kids) != len(b.kids) {
		return false
	}
	eq := true
	for i := range a.kids {
		r := w.treeEq(a.kids[i], b.kids[i])
		eq = eq && r
	}
	return eq
}

// vfLogEq compares two effect logs element-wise.
func vfLogEq(a, b []vfRec) bool {
	if len(a) != len(b) {
		return false
	}
	eq := true
	for i := range a {
		x, y := a[i], b[i]
		if x.kind != y.kind || x.name != y.name || x.nargs != y.nargs || x.failed != y.failed {
			return false
		}
		e0 := vfValueEq(x.a0, y.a0)
		e1 := vfValueEq(x.res, y.res)
		eq = eq && e0
		eq = eq && e1
	}
	return eq
}
