//go:build verif

package eval

func init() {
	vfRegister("VerifC04", VerifC04)
	vfRegister("VerifC05", VerifC05)
}

// VerifC04: args = [source, variant, configs]. variant "split": a definite TryEval
// answer under an arbitrary availability mask equals Eval under every completion
// of the unavailable variables for which Eval succeeds, and is not turned into
// a different definite answer by a larger mask. variant "all": with everything
// available TryEval and Eval agree in value and error-ness.
func VerifC04(args []string) {
	src, variant := args[0], args[1]
	tree, ok := refRead(src)
	vfAssert(ok, "harness: skeleton readable by the reference reader")
	w := newWorld(tree, "")
	w.opsFail = true
	if variant == "splitn" {
		// available variables may also hold nil (operators that accept it, eq / ne, then have a value)
		w.mayWrong, w.wrongNil = true, true
		variant = "split"
	}
	cfgs := vfConfigs(args, 2)
	for _, opts := range cfgs {
		conf := w.config(vfRegOf(args), opts)
		e, err := Compile(conf, src)
		vfAssert(err == nil && e != nil, "well-formed expression compiles under "+opts)
		if variant == "all" {
			w.useAvail = false
			w.completion = nil
			t, terr := e.TryEval(&Ctx{VariableFetcher: &vfFetcher{w: w}})
			g, gerr := e.Eval(&Ctx{VariableFetcher: &vfFetcher{w: w}})
			vfReach("all-available")
			vfAssert((terr == nil) == (gerr == nil), "all variables available: TryEval and Eval fail together under "+opts)
			if gerr == nil {
				vfAssert(t == g, "all variables available: TryEval and Eval agree under "+opts)
			}
			continue
		}
		// (a) definite answer vs every completion
		w.useAvail = true
		w.completion = nil
		w.mask2 = false
		t, terr := e.TryEval(&Ctx{VariableFetcher: &vfFetcher{w: w}})
		if terr != nil || t == DNE {
			continue
		}
		vfReach("definite")
		w.useAvail = false
		w.completing = true
		g, gerr := e.Eval(&Ctx{VariableFetcher: &vfFetcher{w: w}})
		w.completing = false
		if gerr == nil {
			vfReach("completion-succeeds")
			vfAssert(g == t, "a definite TryEval answer is contradicted by a completion under "+opts)
		}
		// (c) a larger mask never yields a different definite answer
		w.useAvail = true
		w.mask2 = true
		t2, terr2 := e.TryEval(&Ctx{VariableFetcher: &vfFetcher{w: w}})
		w.mask2 = false
		if terr2 == nil && t2 != DNE {
			vfReach("larger-mask-definite")
			vfAssert(t2 == t, "more available variables turn a definite answer into a different one under "+opts)
		}
	}
}

// VerifC05: args = [source, configs]. Sub-expressions do not fail. Whenever
// strong Kleene evaluation over availability is definite, TryEval returns that
// value; otherwise it may be more informative, but an undecided TryEval is
// exactly DNE with a nil error (TryEvalBool: ErrDNE), never an error or default.
func VerifC05(args []string) {
	src := args[0]
	tree, ok := refRead(src)
	vfAssert(ok, "harness: skeleton readable by the reference reader")
	w := newWorld(tree, "")
	cfgs := vfConfigs(args, 1)
	// the quantifier: no sub-expression fails under the underlying binding
	w.useAvail = false
	_, noFail := w.refStrict(tree)
	vfAssume(noFail)
	w.useAvail = true
	want, definite := w.refKleene(tree)
	for _, opts := range cfgs {
		conf := w.config(vfRegOf(args), opts)
		e, err := Compile(conf, src)
		vfAssert(err == nil && e != nil, "well-formed expression compiles under "+opts)
		t, terr := e.TryEval(&Ctx{VariableFetcher: &vfFetcher{w: w}})
		vfAssert(terr == nil, "TryEval reports an error although no sub-expression fails, under "+opts)
		if definite {
			vfReach("kleene-definite")
			vfAssert(t == want, "three-valued evaluation decides the expression but TryEval does not return that value under "+opts)
		} else {
			vfReach("kleene-undecided")
		}
		b, berr := e.TryEvalBool(&Ctx{VariableFetcher: &vfFetcher{w: w}})
		if t == DNE {
			vfReach("dne")
			vfAssert(berr == ErrDNE, "TryEvalBool must report ErrDNE for an undecided expression under "+opts)
		} else if tb, isBool := t.(bool); isBool {
			vfAssert(berr == nil && b == tb, "TryEvalBool returns the definite boolean under "+opts)
		} else {
			vfAssert(berr != nil && berr != ErrDNE, "TryEvalBool rejects a definite non-boolean result under "+opts)
		}
	}
}

// vfConfigs reads the configuration list argument: "all" = the 16 subsets,
// otherwise a comma-separated list of 4-bit strings.
// vfRegOf: how the variables are made known to the compiler: registered with keys (default),
// or not at all with AllowUndefinedVariable when the unit's last argument is "undef".
func vfRegOf(args []string) string {
	if len(args) > 0 && args[len(args)-1] == "undef" {
		return "undef"
	}
	return "keys"
}

func vfConfigs(args []string, i int) []string {
	if len(args) <= i || args[i] == "all" {
		return vfAllOpts
	}
	var out []string
	cur := ""
	for _, c := range args[i] {
		if c == ',' {
			out = append(out, cur)
			cur = ""
			continue
		}
		cur += string(c)
	}
	if cur != "" {
		out = append(out, cur)
	}
	return out
}

func init() {
	vfRegister("VerifC05Fetchers", VerifC05Fetchers)
}

// VerifC05Fetchers: args = [base keys (comma separated, one per local variable), fetcher kind
// ("slice" | "map")]. The library's own fetchers under TryEval: a context built for a base
// config serves expressions compiled with an extension of it (more registered variables).
// The extension's variables are unavailable: TryEval must report DNE for what depends on
// them (never an error, never a default) and still decide what the local variables decide;
// local variables read their bound (arbitrary) values.
func VerifC05Fetchers(args []string) {
	keys := vfSplit(args[0], ',')
	base := NewConfig()
	vals := map[string]interface{}{}
	var locals []string
	for i, ks := range keys {
		k := 0
		neg := false
		for _, c := range ks {
			if c == '-' {
				neg = true
				continue
			}
			k = k*10 + int(c-'0')
		}
		if neg {
			k = -k
		}
		name := "l" + string(rune('0'+i))
		base.VariableKeyMap[name] = VariableKey(k)
		vals[name] = vfBool("val." + name)
		locals = append(locals, name)
	}
	// does NewCtxFromVars pick the name-keyed fetcher for this layout? (a key outside 0..255)
	minKey, maxKey := VariableKey(32767), VariableKey(-32768)
	for _, k := range base.VariableKeyMap {
		if k < minKey {
			minKey = k
		}
		if k > maxKey {
			maxKey = k
		}
	}
	byName := args[1] == "map" || minKey < 0 || maxKey > 255
	remotes := []string{"r0", "r1", "r2"}
	if byName && args[1] != "map" {
		// a variable the base config registers but the caller supplies no value for: with the name-keyed
		// fetcher it is simply not available (the key-indexed fetcher reports every slot of its slice as
		// cached, which is outside what is asserted here)
		base.VariableKeyMap["m0"] = maxKey + 1
		remotes = append(remotes, "m0")
	}
	var ctx *Ctx
	if args[1] == "map" {
		ctx = &Ctx{VariableFetcher: NewMapVarFetcher(vals)}
	} else {
		ctx = NewCtxFromVars(base, vals)
	}
	ext := NewConfig(ExtendConf(base))
	for _, r := range remotes {
		GetOrRegisterKey(ext, r)
	}
	defer func() {
		if !byName {
			return
		}
		// the same context later learns a value (Set): what was undecided becomes definite
		r := remotes[len(remotes)-1]
		vfAssert(ctx.Set(ext.VariableKeyMap[r], r, true) == nil, "Set on the name-keyed fetcher succeeds")
		e, err := Compile(ext, "(not "+r+")")
		vfAssert(err == nil && e != nil, "expression compiles")
		v, terr := e.TryEval(ctx)
		vfReach("learned")
		vfAssert(terr == nil && v == false, "a variable made available on the same context afterwards is still not read by TryEval")
	}()
	try := func(src string) (Value, error) {
		e, err := Compile(ext, src)
		vfAssert(err == nil && e != nil, "expression over local and remote variables compiles: "+src)
		return e.TryEval(ctx)
	}
	for _, r := range remotes {
		v, err := try("(not " + r + ")")
		vfReach("remote")
		vfAssert(err == nil, "TryEval reports an error for an unavailable variable instead of DNE: "+r)
		vfAssert(v == DNE, "TryEval does not report DNE for an expression over an unavailable variable: "+r)
		for _, l := range locals {
			lv := vals[l].(bool)
			v, err = try("(and " + r + " " + l + ")")
			vfAssert(err == nil, "TryEval reports an error although only a variable is unavailable: (and "+r+" "+l+")")
			if !lv {
				vfAssert(v == false, "an available false operand does not decide the and: (and "+r+" "+l+")")
			} else {
				vfAssert(v == DNE, "an undecided and is not DNE: (and "+r+" "+l+")")
			}
			v, err = try("(or " + l + " (not " + r + "))")
			vfAssert(err == nil, "TryEval reports an error although only a variable is unavailable: (or "+l+" (not "+r+"))")
			if lv {
				vfAssert(v == true, "an available true operand does not decide the or: (or "+l+" (not "+r+"))")
			} else {
				vfAssert(v == DNE, "an undecided or is not DNE: (or "+l+" (not "+r+"))")
			}
		}
	}
	for _, l := range locals {
		v, err := try("(not " + l + ")")
		vfAssert(err == nil && v == !vals[l].(bool), "a local variable does not read its bound value under TryEval: "+l)
	}
}
