//go:build verif

package eval

import (
	"sort"
	"strings"
)

func init() {
	vfRegister("VerifC16", VerifC16)
}

// refCanon renders a tree ignoring the operand order of and/or.
func refCanonTree(n *refNode) string {
	if n.leaf {
		return n.atom
	}
	parts := make([]string, len(n.kids))
	for i, k := range n.kids {
		parts[i] = refCanonTree(k)
	}
	if refIsAnd(n.op) || refIsOr(n.op) {
		sort.Strings(parts)
	}
	return "(" + n.op + " " + strings.Join(parts, " ") + ")"
}

// refExact renders a tree exactly.
func refExact(n *refNode) string {
	if n.leaf {
		return n.atom
	}
	parts := make([]string, len(n.kids))
	for i, k := range n.kids {
		parts[i] = refExact(k)
	}
	return "(" + n.op + " " + strings.Join(parts, " ") + ")"
}

// refSkeleton renders a tree with all variable names erased (shape only).
func refSkeleton(n *refNode) string {
	if n.leaf {
		if n.isLit {
			return n.atom
		}
		return "_"
	}
	parts := make([]string, len(n.kids))
	for i, k := range n.kids {
		parts[i] = refSkeleton(k)
	}
	return "(" + n.op + " " + strings.Join(parts, " ") + ")"
}

func refMentions(n *refNode, x string) bool {
	if n.leaf {
		return !n.isLit && n.atom == x
	}
	if n.op == x {
		return true
	}
	for _, k := range n.kids {
		if refMentions(k, x) {
			return true
		}
	}
	return false
}

func refBoolNodes(n *refNode, out map[string]*refNode) {
	if n.leaf {
		return
	}
	if refIsAnd(n.op) || refIsOr(n.op) {
		out[refCanonTree(n)] = n
	}
	for _, k := range n.kids {
		refBoolNodes(k, out)
	}
}

// refOnlyBoolReordered checks P1: same operators, same operand multisets, and
// operand order untouched everywhere except directly below and/or.
func refOnlyBoolReordered(src, out *refNode) bool {
	if src.leaf || out.leaf {
		return src.leaf && out.leaf && src.atom == out.atom
	}
	if src.op != out.op || len(src.kids) != len(out.kids) {
		return false
	}
	if refIsAnd(src.op) || refIsOr(src.op) {
		used := make([]bool, len(out.kids))
		for _, sk := range src.kids {
			c := refCanonTree(sk)
			found := false
			for j, ok := range out.kids {
				if !used[j] && refCanonTree(ok) == c {
					if !refOnlyBoolReordered(sk, ok) {
						return false
					}
					used[j] = true
					found = true
					break
				}
			}
			if !found {
				return false
			}
		}
		return true
	}
	for i := range src.kids {
		if !refOnlyBoolReordered(src.kids[i], out.kids[i]) {
			return false
		}
	}
	return true
}

// refOccIndexOf: the position in kids of the same occurrence (first, second, …) of the operand that
// from[i] is among the operands of from that read the same. Equal operands have equal cost, so a stable
// sort keeps them in order among themselves.
func refOccIndexOf(kids []*refNode, from []*refNode, i int) int {
	canon := refCanonTree(from[i])
	occ := 0
	for k := 0; k < i; k++ {
		if refCanonTree(from[k]) == canon {
			occ++
		}
	}
	for j, k := range kids {
		if refCanonTree(k) == canon {
			if occ == 0 {
				return j
			}
			occ--
		}
	}
	return -1
}

func refIndexOf(kids []*refNode, canon string) int {
	for i, k := range kids {
		if refCanonTree(k) == canon {
			return i
		}
	}
	return -1
}

// VerifC16: args = [source, x, mode, defaults, registration ("" | "undef")]. Reordering only. mode:
//
//	"pair"   two cost maps M, M′ differing in the entry of x (c ≤ c′): P1, P3, P5, and P4 when c′ ≥ 10^9
//	"equal"  all variables share one arbitrary cost: structurally identical siblings keep source order (P2)
//	"nan" "inf" "ninf" "negzero" "half" "huge" "nhuge": one special concrete cost for x: P1 only
//
// The `variable` / `operator` default entries are present with arbitrary values
// when the corresponding letter (v / o) occurs in args[3].
func VerifC16(args []string) {
	src, x, mode, dflt := args[0], args[1], args[2], args[3]
	tree, ok := refRead(src)
	vfAssert(ok, "harness: skeleton readable by the reference reader")
	w := newWorld(tree, "")
	small := func(name string) float64 {
		c := vfCost(name)
		vfAssume(c >= -1000000 && c <= 1000000)
		return c
	}
	base := map[string]float64{}
	if strings.Contains(dflt, "v") {
		base["variable"] = small("cost.variable")
	}
	if strings.Contains(dflt, "o") {
		base["operator"] = small("cost.operator")
	}
	reg := "keys"
	if len(args) > 4 && args[4] == "undef" {
		reg = "undef" // nothing registered, AllowUndefinedVariable on: the variables are told apart by name only
	}
	compile := func(costs map[string]float64) *refNode {
		conf := w.config(reg, "0001")
		for k, c := range base {
			conf.CostsMap[k] = c
		}
		for k, c := range costs {
			conf.CostsMap[k] = c
		}
		e, err := Compile(conf, src)
		vfAssert(err == nil && e != nil, "well-formed expression compiles")
		t, ok := refRead(Dump(e))
		vfAssert(ok, "Dump output readable by the reference reader")
		return t
	}
	switch mode {
	case "equal", "equalx":
		shared := small("cost.shared")
		costs := map[string]float64{}
		for _, name := range w.order {
			costs[name] = shared
		}
		if mode == "equalx" {
			// one name has its own arbitrary cost: the others still tie among themselves
			costs[x] = small("cost.x")
		}
		out := compile(costs)
		vfAssert(refOnlyBoolReordered(tree, out), "P1: reordering changed more than the operand order of and/or")
		srcNodes := map[string]*refNode{}
		refBoolNodes(tree, srcNodes)
		outNodes := map[string]*refNode{}
		refBoolNodes(out, outNodes)
		for canon, sn := range srcNodes {
			on := outNodes[canon]
			vfAssert(on != nil, "P1: an and/or node disappeared")
			for i := 0; i < len(sn.kids); i++ {
				for j := i + 1; j < len(sn.kids); j++ {
					if mode == "equalx" && (refMentions(sn.kids[i], x) || refMentions(sn.kids[j], x)) {
						continue
					}
					if refCanonTree(sn.kids[i]) == refCanonTree(sn.kids[j]) {
						continue // the same operand twice: indistinguishable in the output
					}
					if refSkeleton(sn.kids[i]) == refSkeleton(sn.kids[j]) {
						vfReach("equal-cost-siblings")
						oi := refOccIndexOf(on.kids, sn.kids, i)
						oj := refOccIndexOf(on.kids, sn.kids, j)
						vfAssert(oi >= 0 && oj >= 0 && oi < oj, "P2: operands of equal estimated cost do not keep source order")
					}
				}
			}
		}
		return
	case "pair":
	default:
		var zero float64
		special := map[string]float64{
			"nan": zero / zero, "inf": 1 / zero, "ninf": -1 / zero, "negzero": -zero,
			"half": 0.5, "huge": 1e300, "nhuge": -1e300,
		}
		out := compile(map[string]float64{x: special[mode]})
		vfReach("special-cost")
		vfAssert(refOnlyBoolReordered(tree, out), "P1: reordering changed more than the operand order of and/or (special cost)")
		return
	}
	// pair mode
	costs := map[string]float64{}
	n := 0
	for _, name := range w.order {
		if name != x && n < 3 {
			costs[name] = small("cost." + name)
			n++
		}
	}
	c := small("cost.x")
	c2 := vfCost("cost.x.raised")
	vfAssume(c2 >= c)
	costs[x] = c
	t1 := compile(costs)
	costs[x] = c2
	t2 := compile(costs)
	vfReach("pair")
	vfAssert(refOnlyBoolReordered(tree, t1), "P1: reordering changed more than the operand order of and/or")
	vfAssert(refOnlyBoolReordered(tree, t2), "P1: reordering changed more than the operand order of and/or (raised cost)")
	n1 := map[string]*refNode{}
	refBoolNodes(t1, n1)
	n2 := map[string]*refNode{}
	refBoolNodes(t2, n2)
	huge := c2 >= 1000000000
	for canon, a := range n1 {
		b := n2[canon]
		vfAssert(b != nil, "P1: an and/or node disappeared when a cost was raised")
		for i := 0; i < len(a.kids); i++ {
			for j := 0; j < len(a.kids); j++ {
				if i == j {
					continue
				}
				ci, cj := refCanonTree(a.kids[i]), refCanonTree(a.kids[j])
				if ci == cj {
					continue // the same operand twice: indistinguishable in the output
				}
				mi, mj := refMentions(a.kids[i], x), refMentions(a.kids[j], x)
				bi, bj := refOccIndexOf(b.kids, a.kids, i), refOccIndexOf(b.kids, a.kids, j)
				vfAssert(bi >= 0 && bj >= 0, "P1: operand multiset changed when a cost was raised")
				if !mi && mj && i < j {
					// B (no x) precedes A (mentions x) under M: still so under M′
					vfReach("p3")
					vfAssert(bi < bj, "P3: raising the cost of "+x+" moved an operand mentioning it ahead of a sibling that does not")
				}
				if !mi && !mj && i < j {
					vfReach("p5")
					vfAssert(bi < bj, "P5: raising the cost of "+x+" changed the relative order of siblings that do not mention it")
				}
				if huge && !mi && mj {
					vfReach("p4")
					vfAssert(bi < bj, "P4: with a very large cost for "+x+" an operand mentioning it is not after a sibling that does not")
				}
			}
		}
	}
}
