//go:build verif

package eval

// Harness intrinsics. The symbolic executor intercepts every vf* function by
// name and never runs these bodies; they exist so that the same harness
// compiles natively and replays a solver assignment (VERIF_REPLAY=<file>)
// against the real, compiled code.

import (
	"encoding/json"
	"fmt"
	"math/rand"
	"os"
	"reflect"
	"sort"
	"strconv"
	"strings"
	"sync"
	"time"
)

type vfReplayFile struct {
	Property string            `json:"property"`
	Entry    string            `json:"entry"`
	Args     []string          `json:"args"`
	Model    map[string]string `json:"model"`
	Label    string            `json:"label"`
	Kind     string            `json:"kind"`
}

var (
	vfVals     = map[string]string{}
	vfEntries  = map[string]func(args []string){}
	vfFailed   []string
	vfReached  = map[string]bool{}
	vfObserved []string
	vfFrozen   []vfFrozenRoot
)

type vfStop struct{ label string }
type vfAssumeFalse struct{}

type vfFrozenRoot struct {
	root interface{}
	fp   string
}

func vfRegister(name string, fn func(args []string)) { vfEntries[name] = fn }

func vfLookup(name string) (string, bool) {
	v, ok := vfVals[name]
	return v, ok
}

func vfInt64(name string) int64 {
	v, _ := strconv.ParseInt(vfVals[name], 10, 64)
	return v
}
func vfInt(name string) int     { return int(vfInt64(name)) }
func vfInt16(name string) int16 { return int16(vfInt64(name)) }
func vfRune(name string) rune   { return rune(vfInt64(name)) }
func vfByte(name string) byte {
	v, _ := strconv.ParseUint(vfVals[name], 10, 64)
	return byte(v)
}
func vfBool(name string) bool { return vfVals[name] == "true" }

// vfCost is an integer-valued float64 cost.
func vfCost(name string) float64 { return float64(vfInt64(name)) }

// vfChoice is an n-way nondeterministic choice (a fork in the executor).
func vfChoice(name string, n int) int {
	k := int(vfInt64(name))
	if k < 0 || k >= n {
		return 0
	}
	return k
}

func vfAssume(c bool) {
	if !c {
		panic(vfAssumeFalse{})
	}
}

func vfAssert(c bool, label string) {
	if !c {
		vfFailed = append(vfFailed, label)
		panic(vfStop{label})
	}
}

func vfReach(label string) { vfReached[label] = true }

// vfSymbolic reports whether the harness runs inside the symbolic executor.
func vfSymbolic() bool { return false }

func vfObserve(name string, v interface{}) {
	vfObserved = append(vfObserved, fmt.Sprintf("%s=%v", name, v))
}

// vfFreeze marks everything reachable from root as immutable from now on. The
// executor flags any later store into it; natively a deep fingerprint is taken
// and compared by vfFrozenWrites.
func vfFreeze(root interface{}) {
	vfFrozen = append(vfFrozen, vfFrozenRoot{root: root, fp: vfFingerprint(root)})
}

func vfUnfreeze() { vfFrozen = nil }

// vfFreezeStop marks user-supplied state that vfFreeze must not enter.
func vfFreezeStop(x interface{}) {}

func vfFrozenWrites() int {
	n := 0
	for _, f := range vfFrozen {
		if vfFingerprint(f.root) != f.fp {
			n++
		}
	}
	return n
}

func vfGlobalWrites() int                    { return 0 }
func vfMapOrder(on bool)                     {}
func vfNarrow(on bool)                       {}
func vfNarrowViolations() int                { return 0 }
func vfPlaceholder(tok string) (Value, bool) { return nil, false }

// vfScriptSource makes (*rand.Rand).Intn return the scripted draws rand#1, rand#2, …
// (Intn(n) takes the top 31 bits of Int63 modulo n; small draws pass the rejection loop).
type vfScriptSource struct{ k int }

func (s *vfScriptSource) Int63() int64 {
	s.k++
	v, _ := strconv.ParseInt(vfVals["rand#"+strconv.Itoa(s.k)], 10, 64)
	return v << 32
}
func (s *vfScriptSource) Seed(int64) {}

// vfRand returns a generator whose Intn results are arbitrary (the executor) or scripted (replay).
func vfRand() *rand.Rand { return rand.New(&vfScriptSource{}) }

// vfConcurrently runs f from several goroutines at once (native replay only; the executor is
// single-threaded and decides concurrency claims by the write footprint). Programs that call the
// harness's own stateful operators are skipped: their shared counters would race by themselves.
func vfConcurrently(f func(g int), e *Expr, src string) {
	if strings.Contains(src, "(p ") || strings.Contains(src, "(q ") || strings.Contains(src, "(z)") || strings.Contains(src, "(y)") {
		return
	}
	stop := make(chan struct{})
	if e.EventChan != nil {
		go func() {
			for {
				select {
				case <-e.EventChan:
				case <-stop:
					return
				}
			}
		}()
	}
	var wg sync.WaitGroup
	for g := 0; g < 4; g++ {
		wg.Add(1)
		go func(g int) {
			defer wg.Done()
			for k := 0; k < 6; k++ {
				f(g)
			}
		}(g)
	}
	wg.Wait()
	close(stop)
}

// vfOpaqueDate is an arbitrary text; natively a concrete one that matches layout.
func vfOpaqueDate(name, layout string) string {
	vfOpaqueLayouts[name] = layout
	return time.Unix(1643796672, 0).UTC().Format(layout)
}

// vfParsedUnix is time.Parse(layout, text of name) as (unix seconds, ok); the
// executor treats it as an uninterpreted function of (layout, name).
func vfParsedUnix(name, layout string) (int64, bool) {
	t, err := time.Parse(layout, vfOpaqueDate(name, vfOpaqueLayouts[name]))
	if err != nil {
		return 0, false
	}
	return t.Unix(), true
}

var vfOpaqueLayouts = map[string]string{}

// vfSharedMutable counts maps / slice backing arrays reachable from both a and b.
func vfSharedMutable(a, b interface{}) int {
	collect := func(root interface{}) map[uintptr]bool {
		out := map[uintptr]bool{}
		var walk func(v reflect.Value, depth int)
		walk = func(v reflect.Value, depth int) {
			if depth > 6 {
				return
			}
			switch v.Kind() {
			case reflect.Ptr, reflect.Interface:
				if !v.IsNil() {
					walk(v.Elem(), depth+1)
				}
			case reflect.Struct:
				for i := 0; i < v.NumField(); i++ {
					walk(v.Field(i), depth+1)
				}
			case reflect.Map:
				if !v.IsNil() {
					out[v.Pointer()] = true
				}
			case reflect.Slice:
				if v.Cap() > 0 {
					out[v.Pointer()] = true
				}
			}
		}
		walk(reflect.ValueOf(root), 0)
		return out
	}
	sa, sb := collect(a), collect(b)
	n := 0
	for k := range sa {
		if sb[k] {
			n++
		}
	}
	return n
}

// vfFingerprint renders a deep structural fingerprint (pointer graph shape,
// scalar contents, function identities) of v.
func vfFingerprint(v interface{}) string {
	var out strings.Builder
	seen := map[uintptr]int{}
	var walk func(sb *strings.Builder, v reflect.Value, depth int)
	walk = func(sb *strings.Builder, v reflect.Value, depth int) {
		if depth > 64 {
			sb.WriteString("…")
			return
		}
		switch v.Kind() {
		case reflect.Invalid:
			sb.WriteString("nil")
		case reflect.Ptr:
			if v.IsNil() {
				sb.WriteString("nil")
				return
			}
			if id, ok := seen[v.Pointer()]; ok {
				fmt.Fprintf(sb, "@%d", id)
				return
			}
			seen[v.Pointer()] = len(seen)
			sb.WriteString("&")
			walk(sb, v.Elem(), depth+1)
		case reflect.Interface:
			if v.IsNil() {
				sb.WriteString("nil")
				return
			}
			fmt.Fprintf(sb, "(%s)", v.Elem().Type())
			walk(sb, v.Elem(), depth+1)
		case reflect.Struct:
			sb.WriteString("{")
			for i := 0; i < v.NumField(); i++ {
				if v.Type().Field(i).Type.Kind() == reflect.Chan {
					continue
				}
				walk(sb, v.Field(i), depth+1)
				sb.WriteString(",")
			}
			sb.WriteString("}")
		case reflect.Slice:
			if v.IsNil() {
				sb.WriteString("nilslice")
				return
			}
			fmt.Fprintf(sb, "[%d/%d:", v.Len(), v.Cap())
			full := v.Slice3(0, v.Cap(), v.Cap())
			for i := 0; i < full.Len(); i++ {
				walk(sb, full.Index(i), depth+1)
				sb.WriteString(",")
			}
			sb.WriteString("]")
		case reflect.Array:
			sb.WriteString("[")
			for i := 0; i < v.Len(); i++ {
				walk(sb, v.Index(i), depth+1)
				sb.WriteString(",")
			}
			sb.WriteString("]")
		case reflect.Map:
			if v.IsNil() {
				sb.WriteString("nilmap")
				return
			}
			var items []string
			iter := v.MapRange()
			for iter.Next() {
				var inner strings.Builder
				walk(&inner, iter.Key(), depth+1)
				inner.WriteString("=>")
				walk(&inner, iter.Value(), depth+1)
				items = append(items, inner.String())
			}
			sort.Strings(items)
			sb.WriteString("map{" + strings.Join(items, ";") + "}")
		case reflect.Func:
			if v.IsNil() {
				sb.WriteString("nilfunc")
			} else {
				fmt.Fprintf(sb, "func@%x", v.Pointer())
			}
		case reflect.Chan:
			sb.WriteString("chan")
		case reflect.Bool:
			fmt.Fprintf(sb, "%v", v.Bool())
		case reflect.Int, reflect.Int8, reflect.Int16, reflect.Int32, reflect.Int64:
			fmt.Fprintf(sb, "%d", v.Int())
		case reflect.Uint, reflect.Uint8, reflect.Uint16, reflect.Uint32, reflect.Uint64, reflect.Uintptr:
			fmt.Fprintf(sb, "%d", v.Uint())
		case reflect.Float32, reflect.Float64:
			fmt.Fprintf(sb, "%v", v.Float())
		case reflect.String:
			fmt.Fprintf(sb, "%q", v.String())
		default:
			fmt.Fprintf(sb, "?%s", v.Kind())
		}
	}
	walk(&out, reflect.ValueOf(v), 0)
	return out.String()
}

// vfReplayRun executes one replay file natively and reports what happened.
// Output lines (stdout) are parsed by the driver:
//
//	VERIF-RESULT ok | assumed-away | fail label=<l> | panic msg=<m>
func vfReplayRun(path string) (status string) {
	data, err := os.ReadFile(path)
	if err != nil {
		return "error read: " + err.Error()
	}
	var rf vfReplayFile
	if err := json.Unmarshal(data, &rf); err != nil {
		return "error json: " + err.Error()
	}
	fn := vfEntries[rf.Entry]
	if fn == nil {
		return "error unknown entry " + rf.Entry
	}
	vfVals = rf.Model
	if vfVals == nil {
		vfVals = map[string]string{}
	}
	vfFailed, vfObserved, vfFrozen = nil, nil, nil
	vfReached = map[string]bool{}
	status = "ok"
	func() {
		defer func() {
			r := recover()
			switch p := r.(type) {
			case nil:
			case vfStop:
				status = "fail label=" + p.label
			case vfAssumeFalse:
				status = "assumed-away"
			default:
				status = fmt.Sprintf("panic msg=%v", r)
			}
		}()
		fn(rf.Args)
	}()
	return status
}
