#!/bin/bash
# Confirms a seeded change (mutant) and runs the property's check against it.
# usage: tools/seed.sh <seed-id> <property> <dir containing patch.diff demo_test.go notes.md> [tier] [extra properties…]
set -u
id=$1; prop=$2; src=$3; tier=${4:-quick}; shift 4 2>/dev/null || shift $#
extra="$@"
export GOFLAGS=-mod=mod GOPROXY=off GOSUMDB=off GOTOOLCHAIN=local
cd /repo || exit 2
if [ -n "$(git status --porcelain)" ]; then echo "repo not clean"; exit 2; fi
out=/verif/seeded/$id; mkdir -p $out
cp $src/patch.diff $out/patch.diff; cp $src/demo_test.go $out/demo_test.go; [ -f $src/notes.md ] && cp $src/notes.md $out/notes.md
cleanup() { rm -f /repo/zz_seed_demo_test.go; git -C /repo checkout -- . ; }
trap cleanup EXIT
cp $out/demo_test.go /repo/zz_seed_demo_test.go
base=$(go test -count=1 -run '^TestMutantDemo' . 2>&1 | tail -1)
rm -f /repo/zz_seed_demo_test.go
if ! git apply $out/patch.diff; then echo "patch does not apply"; exit 2; fi
build=$(go build ./... 2>&1 | tail -2)
suite=$(go test -count=1 ./... 2>&1 | tail -1)
cp $out/demo_test.go /repo/zz_seed_demo_test.go
demo=$(go test -count=1 -run '^TestMutantDemo' . 2>&1 | tail -1)
rm -f /repo/zz_seed_demo_test.go
echo "baseline demo: $base"; echo "build: ${build:-ok}"; echo "suite with change: $suite"; echo "demo with change: $demo"
results=""
for p in $prop $extra; do
  start=$(date +%s)
  res=$(cd /verif && timeout 3000 ${VCHECK:-./bin/vcheck} -p $p -tier $tier -evidence /tmp/seed-evidence 2>&1)
  code=$?
  end=$(date +%s)
  nv=$(echo "$res" | grep -c '^VIOLATION')
  first=$(echo "$res" | grep -m1 '^violation detail' | cut -c1-400)
  echo "check $p ($tier): exit=$code violations=$nv time=$((end-start))s"
  echo "  $first"
  echo "$res" | grep -E '^(INCONCLUSIVE|undecided)' | cut -c1-300 | head -3
  results="$results{\"property\":\"$p\",\"tier\":\"$tier\",\"exit\":$code,\"violation_lines\":$nv,\"seconds\":$((end-start))},"
done
python3 - "$id" "$prop" "$base" "$suite" "$demo" "[${results%,}]" <<'PY'
import json,sys,os
id,prop,base,suite,demo,results=sys.argv[1:7]
meta={"seed":id,"property":prop,"baseline_demo":base,"suite_with_change":suite,"demo_with_change":demo,"checks":json.loads(results)}
p='/verif/seeded/%s/meta.json'%id
old={}
if os.path.exists(p):
    try: old=json.load(open(p))
    except Exception: old={}
for k in ("needs_to_manifest","breaks","source","breaks_property","change","first_run"):
    if k in old: meta[k]=old[k]
json.dump(meta,open(p,'w'),indent=1)
PY
rm -rf /tmp/seed-evidence
