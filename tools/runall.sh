#!/bin/bash
# Runs every registered check of a tier in sequence (regenerates /verif/evidence).
tier=${1:-quick}
cd /verif
for p in $(python3 -c "import json;print(' '.join(c['property_id'] for c in json.load(open('MANIFEST.json'))['checks']))"); do
  start=$(date +%s)
  out=$(./bin/vcheck -p $p -tier $tier 2>&1)
  code=$?
  end=$(date +%s)
  echo "$p exit=$code time=$((end-start))s $(echo "$out" | grep '^property=' | cut -c1-260)"
  echo "$out" | grep -E '^(VIOLATION|KNOWN-FINDING|INCONCLUSIVE|undecided)' | cut -c1-200 | head -5
done
