#!/usr/bin/env python3
"""Regenerates /verif/MANIFEST.json from the table below (single source of truth)."""
import json, sys

ALL = ["C%02d" % i for i in range(1, 21)]

# property id -> dict(text, note, technique, design_ref, thorough(bool))
CHECKS = {}

def check(pid, text, note, technique, design_ref, thorough=True):
    CHECKS[pid] = dict(text=text, note=note, technique=technique, design_ref=design_ref, thorough=thorough)

NA = {}

TRUST = ("Trusted: go/ssa lowering, the gosym executor (cross-checked on every run by a 350-case native-vs-executor conformance corpus "
         "and by native replay of sampled passing-path witnesses), z3/cvc5, natively called/stubbed standard-library functions, "
         "and the short reference models in /verif/harness. Nothing is claimed outside the stated bounds; solver unknowns and "
         "exhausted budgets are reported as undecided, never as success.")

check("C18",
      "Bounded symbolic execution of every scalar entry of the real builtinOperators table (arithmetic, logic, comparison, eq/ne, between and all "
      "their aliases) on operands that are arbitrary 64-bit integers / booleans (solver variables) plus concrete wrong-typed operands; the result "
      "and error-ness are asserted equal to a reference algebra, every alias to its named form, ne/le/ge to the negation of eq/gt/lt. unsat on "
      "every path = holds for ALL int64/bool values for the operand counts and type vectors listed in the evidence; any sat model is replayed "
      "natively before it is reported.",
      "Bound: 0..3 operands quick, 0..5 thorough; all type vectors for <=2 operands, single wrong-typed position above. eq/ne on list operands "
      "excluded (C06). " + TRUST,
      "SSA symbolic execution + SMT (z3 bit-vectors), native replay of counterexamples", "DESIGN.md §4 C18")

SHAPES = ("Program shape is enumerated by the host (all typed shapes with <=2 internal nodes quick / larger thorough, plus a jump-stress family; "
          "grammar in DESIGN.md §3); everything else - variable values, failures, availability, constants, custom-operator behaviour, costs - is a solver "
          "variable, so one symbolic path covers all 2^64 values per variable. ")

check("C01",
      "Bounded symbolic execution of the real Compile (lexer, parser, check, buildExpr) and Expr.Eval/EvalBool on each shape with optimisations off, "
      "against a reference left-to-right short-circuit evaluator held in the harness: value, error-ness and identity of the fetcher's/operator's own "
      "error are asserted on every path (unsat = holds for all bindings, incl. unbound and wrong-typed variables and failing custom operators). " + SHAPES,
      "Bound: shapes <=2 internal nodes (quick) over one representative operator per class; registration modes explicit keys / undefined-variable / "
      "constant-shadows-variable. Operators individually: C18. " + TRUST,
      "SSA symbolic execution + SMT vs reference evaluator, native replay", "DESIGN.md §4 C01")
check("C02",
      "Each shape is compiled under all 16 optimisation subsets inside one symbolic run and evaluated on one shared symbolic binding; A1 (any two "
      "configurations that both return a value agree), A2 (strict success => every configuration returns it), A3 (Reordering off and unoptimised "
      "success => same value) are asserted pairwise; constants are symbolic so constant folding is executed on arbitrary values; costs are symbolic "
      "integer-valued doubles (every order the stable sort can produce is a path) plus concrete NaN/Inf/-0/0.5/1e300; the directive form is compared "
      "with the option form over all 3^4 directive combinations (concrete). " + SHAPES,
      "Bound: shapes <=2 internal nodes quick; symbolic costs |c|<=2^40 integer-valued (exact as SMT Int), non-integer/NaN/Inf only as concrete values. " + TRUST,
      "SSA symbolic execution + SMT, relational (16 programs per query), native replay", "DESIGN.md §4 C02")
check("C03",
      "The sequence of VariableFetcher.Get calls and registered-operator calls (arguments and results as symbolic terms) made by the real Eval is "
      "compared element-wise with the trace of a reference short-circuit evaluator run on the tree re-read from Dump, for all 16 subsets on every "
      "symbolic path; with FastEvaluation on, the permitted two-leaf relaxation is accepted as an alternative trace. " + SHAPES,
      "Bound: shapes <=2 internal nodes quick; fetches may fail in mode f. " + TRUST,
      "SSA symbolic execution + SMT, effect-log equality vs reference trace", "DESIGN.md §4 C03")
check("C04",
      "TryEval under an arbitrary availability mask (one symbolic Boolean per variable) is compared with Eval where the unavailable variables take "
      "fresh symbolic values (= every completion), with TryEval under an arbitrary larger mask, and with Eval when everything is available; "
      "a definite answer contradicted by any completion is a sat query. " + SHAPES,
      "Bound: shapes <=2 internal nodes; quick runs 5 covering optimisation subsets per shape, thorough all 16. Eval on the completion is assumed to succeed (quantifier). " + TRUST,
      "SSA symbolic execution + SMT, completions as fresh symbols", "DESIGN.md §4 C04")
check("C05",
      "TryEval is compared with a strong-Kleene reference evaluator over the source tree under an arbitrary availability mask and arbitrary values; "
      "Kleene-definite => TryEval returns that value; undecided => exactly DNE with nil error and TryEvalBool = ErrDNE. " + SHAPES,
      "Bound: shapes <=2 internal nodes; quick runs 5 covering optimisation subsets, thorough all 16; sub-expressions assumed not to fail (quantifier). " + TRUST,
      "SSA symbolic execution + SMT vs Kleene reference", "DESIGN.md §4 C05")

check("C07",
      "Frozen-heap monitor over symbolic execution: after Compile every slot reachable from *Expr (node array, nodes, values, parent table, closure "
      "cells) is marked; any Store/MapUpdate/copy/append-in-place/sort-swap into a marked slot, or store to a package variable, on ANY symbolic path of "
      "TryEval+Eval+Dump+DumpTable (arbitrary bindings, availability, failures; events off/ReportEvent/Debug) is a violation. The schedule quantifier "
      "is discharged by non-interference (calls share only memory nobody writes), the history clause is also asserted directly (Eval(b1);Eval(b2) vs fresh). " + SHAPES,
      "Interleavings are NOT explored (weak target for SMT); the claim is the per-call write footprint + the Go memory model. User-supplied fetchers/operators sharing state are outside the property. " + TRUST,
      "SSA symbolic execution with write-footprint monitor + SMT path feasibility", "DESIGN.md §4 C07")
check("C08",
      "The caller's Config (symbolic constant values/costs, StatelessOperators with spare capacity) is frozen and Compile is executed symbolically on "
      "sources with every directive form, invalid directives and malformed texts: zero writes into the config or package variables on every path. "
      "Determinism: the same source is recompiled after other compilations with Go's unspecified map iteration order turned into an explicit "
      "nondeterministic choice (every order explored) and must give the same Dump/DumpTable/Eval. CopyConfig/ExtendConf: no shared container, and "
      "mutating every field of the copy writes nothing into the frozen source.",
      "Bound: 4 shapes (+ all shapes <=1 internal node thorough), 2-4 entries per map. Interleavings not explored: Compile only reads the shared config (monitor), concurrent map reads are race-free. " + TRUST,
      "SSA symbolic execution with write-footprint monitor and map-order nondeterminism", "DESIGN.md §4 C08")
check("C09",
      "Structural sizes are enumerated at and around each limit (127 operands flat and via flattening, 32767 nodes, 16383 nodes with events, stack "
      "classes 8/16) while the data is symbolic; a narrowing monitor checks every Convert to a narrower integer and every int8/int16 +,-,* executed in "
      "the package, all index/slice/makeslice bounds are panic obligations, and accepted programs must evaluate (Eval and TryEval) to the reference fold.",
      "Bound: sizes adjacent to the limits only (listed in evidence). " + TRUST,
      "SSA symbolic execution with narrowing/bounds monitors at boundary sizes", "DESIGN.md §4 C09")
check("C10",
      "Symbolic constants make every constant fold a fork on whether the operator call succeeds; invocation counters of the registered operators are "
      "asserted 0 after Compile unless declared stateless (also with all-constant arguments), each Eval must invoke them exactly as often as the "
      "reference evaluation of the Dump tree, Compile never fails on failing constant sub-expressions, and every variable not removed by a deciding "
      "constant operand of an enclosing and/or (reference folding predicate) must still occur in the Dump tree. " + SHAPES,
      "Bound: shapes <=2 internal nodes with EVERY variable/constant leaf assignment, all 16 subsets, 2 evaluations per compilation. " + TRUST,
      "SSA symbolic execution + SMT with invocation counters and a reference folding predicate", "DESIGN.md §4 C10")
check("C11",
      "GetOrRegisterKey is executed on key maps whose existing keys are arbitrary pairwise-distinct int16 solver variables (the solver finds the key "
      "values that collide with the first-free scan), asserting uniqueness, stability and idempotence; (tuple v0 v1 v2) is evaluated through the real "
      "NewCtxFromVars / Eval convenience function under explicit keys on both sides of the slice/map fetcher boundary, symbolic keys, all registration "
      "orders, RegVarAndOp under every map iteration order and undefined-variable mode, with bindings of all 17 supported Go kinds carrying symbolic data.",
      "Bound: <=3 (4 thorough) pre-registered names + <=3 registrations; 3 variables; symbolic keys only on the map-fetcher side (slice fetcher via 8 concrete boundary triples). " + TRUST,
      "SSA symbolic execution + SMT over symbolic keys and typed bindings", "DESIGN.md §4 C11")
check("C12",
      "Each shape is compiled with and without ReportEvent/Debug; results and Dump must be identical; the events are read only AFTER the evaluation "
      "returned (retaining consumer) and compared term-by-term with the calls the registered operators saw themselves and with the operator "
      "applications of the reference evaluation of the Dump tree (arguments at call time, result/error); and/or events must be self-consistent; "
      "LOOP positions strictly increase and stacks are private. " + SHAPES,
      "Bound: shapes <=2 internal nodes; quick 5 covering subsets, thorough 16. The genuine defect found here (Params aliased the reused buffer) is fixed in /repo (see known_findings.json). " + TRUST,
      "SSA symbolic execution + SMT, event stream vs reference application log", "DESIGN.md §4 C12")
check("C13",
      "For every shape (variable and literal leaves), all 16 subsets and event modes: Dump text is recompiled unoptimised by the real Compile inside "
      "the same symbolic run; Dump(recompiled) must equal the text byte for byte and both programs must agree (value, error-ness) on an arbitrary "
      "symbolic binding. " + SHAPES,
      "Bound: structure + int/bool literals; the string-literal round trip (symbolic characters through lexer and strconv.Quote) is the separate literal sub-check listed in the evidence when built. " + TRUST,
      "SSA symbolic execution + SMT, decompile/recompile round trip", "DESIGN.md §4 C13")
check("C16",
      "Two compilations (Reordering only) under cost maps that differ in one entry c<=c', all costs integer-valued solver variables; every comparison "
      "outcome of the real sort.stable_func is a path; on the two Dump trees: P1 only and/or operand order changes, P2 structurally identical siblings "
      "of equal cost keep source order, P3/P5 raising the cost of x never moves an x-operand ahead / never reorders the others, P4 with c'>=10^9 all "
      "x-operands come last. Assertions are formula-free (no base cost assumed).",
      "Bound: shapes <=2 internal nodes containing and/or + 10 wider shapes (<=4 and/or operands); integer-valued costs (exact as SMT Int); NaN/Inf/fractions only as concrete values for P1. " + TRUST,
      "SSA symbolic execution (real stable sort on symbolic costs) + SMT linear integer arithmetic", "DESIGN.md §4 C16")
check("C17",
      "The real `in`/`overlap` table entries run on lists of arbitrary int64 / arbitrary one-byte strings (solver variables) with concrete lengths on "
      "both sides of the 100-element switch; the result is asserted equal to the formula ∃i,j. A[i]=B[j] (resp. ∃j. v=L[j]) and overlap to be "
      "symmetric; the hash path uses maps with symbolic keys; pre-built sets, empty list literal on either side and element-type mismatches are covered, "
      "plus 25 concrete expressions through Compile+Eval.",
      "Bound: the length pairs listed in the evidence (scan and hash path, boundary 99/100/101); symmetry asserted for |A|*|B|<=30. The genuine defect found here ((overlap () (1 2)) type error) is fixed in /repo. " + TRUST,
      "SSA symbolic execution + SMT with symbolic-key maps (lazy path forking)", "DESIGN.md §4 C17")

check("C06",
      "Every implicit run-time check of the Go code (index/slice bounds, nil dereference, failed type assertion, == on uncomparable dynamic types, "
      "integer division by zero, makeslice, send on nil/full channel) is a solver obligation on every symbolic path of (a) Compile on texts of "
      "arbitrary characters (Latin-1 as solver variables + selected Unicode), alone and inside 11 syntactic contexts, both notations; (b) the parser "
      "driven below the lexer on every token vector up to the bound; (c) Eval/TryEval/Dump/DumpTable with variables bound to ANY supported type "
      "incl. lists and nil, events on/off with LOOP positions asserted strictly increasing. A sat answer is replayed through the public API.",
      "Bound: texts <=2 (3 thorough) characters and 1-2 characters in context; token vectors <=3 infix / <=4 prefix (4/5 thorough, 6 for common openings); "
      "shapes <=1 internal node with all variables any-typed, <=2 with one. Five genuine panic defects found here are fixed in /repo (known_findings.json). " + TRUST,
      "SSA symbolic execution with panic/hang edges as obligations + SMT, native replay", "DESIGN.md §4 C06")
check("C19",
      "Version texts are built from arbitrary decimal digits (solver variables) in concrete skeletons with 1..5 components of 1/4/5 digits; "
      "strings.Split and strconv.ParseInt are executed symbolically on them; for all digit values: components <=9999 => accepted and the encoded "
      "integers compare exactly like the component-wise comparison (missing = 0, beyond N ignored), a component >=10000 / non-digit / empty "
      "component / valid length outside 1..4 (arbitrary int64) / wrong parameter types => rejected. The order query (res*10000+v) is decided by cvc5 "
      "--solve-bv-as-int=sum. Dates: time.Parse is an uninterpreted function, so for EVERY text each of the 8 operators is shown to parse with "
      "exactly the documented/supplied layout and return that parse's Unix seconds; plus 132 concrete texts against independently computed Unix seconds.",
      "Chronological monotonicity of time.Parse∘Unix itself is a standard-library property and is NOT decided (assumption). Signed components are outside the stated domain. " + TRUST,
      "SSA symbolic execution + SMT (cvc5 bit-vectors solved as integers), uninterpreted time.Parse", "DESIGN.md §4 C19")

check("C14",
      "Re-layout: between the tokens of 7 expressions each gap is filled with 1-2 ARBITRARY Unicode spaces (solver variables constrained by the real "
      "unicode.IsSpace), a comment with arbitrary characters, a ;;;; directive, or nothing where a delimiter allows it; Dump/DumpTable/error-ness of the "
      "compiled re-layout must equal the baseline. Formatter: for every text of <=3 (4 thorough) arbitrary characters, and 1-2 arbitrary characters "
      "inside 11 contexts, IndentByParentheses (once and twice) must give exactly the tokens, string literals and comments that a 50-line reference "
      "lexer finds in the original; 13 whole expressions must compile identically after formatting.",
      "Bound: as listed; comments compared modulo trailing blanks; the space in front of a string literal is a token boundary. The genuine defect found here (formatter not string-literal aware) is fixed in /repo. " + TRUST,
      "SSA symbolic execution over symbolic characters + SMT vs reference lexer", "DESIGN.md §4 C14")
check("C15",
      "Expression templates (all trees with <=2 operator nodes quick / 3 thorough over binary infix operators, !, calls, if, list membership) are "
      "rendered to infix text with minimal parentheses derived from the DOCUMENTED precedence table, with full and with redundant parentheses; every "
      "binary slot ranges over all 16 infix spellings; the real infix parser must produce the same Dump as the prefix form and both programs must agree "
      "on arbitrary int64/bool bindings (solver variables).",
      "Bound: templates as listed; the operator quantifier is discharged by forking (parser is control code), the solver decides the evaluation equivalence. " + TRUST,
      "SSA symbolic execution + SMT, infix vs prefix differential with a reference precedence table", "DESIGN.md §4 C15")

check("C20",
      "(*rand.Rand).Intn is replaced by a nondeterministic stub (arbitrary value in [0,n)), so one symbolic run of the real GenerateRandomExpr covers "
      "every seed. Levels 0 and 1 are explored exhaustively for both result types and the option subsets; variables carry arbitrary int64/bool values "
      "or DNE and numeric literals are arbitrary in range, so at level 1 the operands of the generated operator range over every possible child result. "
      "Asserted: the expression is well-formed and compiles with the variables given, evaluation does not fail, and the reported Res equals both the "
      "reference semantics (short-circuit evaluator / strong Kleene with DNE) and the engine (Eval / TryEval). Counterexamples are replayed natively "
      "with a scripted rand.Source that makes Intn return the solver's draws.",
      "Levels >=2 are not run: the code computing Res from the children's Res is identical at every level >=1 and its inputs are covered by the level-1 "
      "operands; the remaining step is compositionality of evaluation (C01/C05), an assumption. Known finding listed in known_findings.json: level 0 returns bare atoms that do not compile. " + TRUST,
      "SSA symbolic execution with rand as nondeterministic stub + SMT vs reference evaluators", "DESIGN.md §4 C20")


# additions to the bounds made after the sixth batch of seeded changes (appended to the level notes)
EXTRA = {
 "C01": "Also: integer literals of 1..5 arbitrary digits (leading zeros, minus sign) as operand, list element, in infix notation and under folding must denote their decimal value; every if-shape again with a variable spelled like the compiler's end-if marker.",
 "C02": "Also: programs holding constants of different types that print alike (1 / \"1\", true / \"true\"), xor groups next to and / or groups.",
 "C04": "Also: available variables may hold nil (variant splitn).",
 "C05": "Also (library fetchers): a registered variable without a value under NewCtxFromVars' name-keyed fetcher is unavailable, and a value Set on the same context afterwards is read.",
 "C06": "Also: every entry of the built-in operator table on 0..2 (3 thorough) operands of any type, directly, over variables and over folded constants.",
 "C08": "Also: Compile(nil, ...) and CopyConfig(nil) carry no state between calls; names the config does not know (accepted by option or directive) leave the caller's config untouched; the two configs of the cross variant price different names.",
 "C09": "Also: stack depths 127..129 and 256 with if / and / or at the deepest point; operators of 127..300 operands in every position of an if; event-mode programs of 16383..25000 nodes built from two-leaf operators with FastEvaluation on and off.",
 "C10": "Also: operators registered under built-in names (direct map fill) are never invoked; membership in the empty list over failing / effectful operands.",
 "C11": "Also: empty []int / []int32 bindings.",
 "C12": "Also: the optimisation switches left unset (library defaults) in the plain and in the event-mode configuration. A consumer that runs concurrently with the evaluation (events dropped on a full buffered channel) is outside what a sequential executor decides.",
 "C13": "Also: the literal among integer / Boolean / string constants that print alike.",
 "C14": "Also: empty, one-character, consecutive, leading and trailing (no final line break) comments.",
 "C15": "Also: identifiers starting with an underscore, containing dots, non-ASCII letters, or starting with an operator word.",
 "C16": "Also: and/or with one operand written twice (occurrence-aware matching) and shapes over unregistered variables (AllowUndefinedVariable).",
 "C17": "Also: list literals with arbitrary element characters / digits (prefix and infix, with and without optimisations) and lists changed in place between two calls.",
 "C19": "Also: version components of 19 / 20 digits around 2^63 and 2^64 (must be rejected unless the value is <= 9999); parameter counts / types of every date operator.",
 "C20": "Also: the GenVariables option built from a map that receives its values afterwards (level 0).",
}
DEGRADE = (" If a harness file no longer type-checks against the tree (an unexported name it uses was renamed), the loader substitutes its public-API fallback "
           "or drops it and prints DEGRADED lines; the units of dropped entries are reported as not run, the rest of the check still decides.")

def main():
    checks = []
    for pid in ALL:
        if pid not in CHECKS:
            continue
        c = CHECKS[pid]
        e = {
            "property_id": pid,
            "quick_cmd": "./bin/vcheck -p %s -tier quick" % pid,
            "evidence_file": "/verif/evidence/%s.json" % pid,
            "replay_cmd_template": "./bin/vcheck -p %s -replay {path}" % pid,
            "engine": "gosym",
            "level_claimed": {"category": "model_checking", "text": c["text"], "design_ref": c["design_ref"]},
            "level_note": c["note"] + (" " + EXTRA[pid] if pid in EXTRA else "") + DEGRADE,
            "technique": c["technique"],
        }
        if c["thorough"]:
            e["thorough_cmd"] = "./bin/vcheck -p %s -tier thorough" % pid
        checks.append(e)
    na = []
    for pid in ALL:
        if pid not in CHECKS:
            na.append({"property_id": pid, "reason": NA.get(pid, "check not built yet (engine under construction in this session); no claim is made")})
    fixes = []
    try:
        kf = json.load(open("/verif/known_findings.json"))
        for f in kf.get("fixed", []):
            parts = f.split()
            if len(parts) > 2:
                fixes.append(parts[2])
    except Exception:
        pass
    m = {
        "version": 1,
        "setup_cmd": "cd /verif/engine && GOFLAGS=-mod=mod GOPROXY=off GOSUMDB=off GOTOOLCHAIN=local go build -o /verif/bin/vcheck .",
        "hooks": {
            "guard": "verif",
            "enable": "harness files in /verif/harness carry //go:build verif and reach the compiler only through overlays (go/packages Overlay for the SSA encoder, `go test -overlay -tags verif` for native replay); /repo itself contains no hook code",
            "baseline_off_cmd": "cd /repo && go test -vet=off -count=1 ./...",
            "source_commits": fixes,
            "add_only": True,
        },
        "engines": [{
            "name": "gosym", "path": "/verif/engine", "serves_properties": sorted(CHECKS.keys()),
            "kind_free_text": "bounded symbolic execution of /repo's Go SSA (golang.org/x/tools/go/ssa v0.29.0, regenerated from the working tree on every run) with z3 4.8.12 / cvc5 back ends; every counterexample is replayed against the natively compiled code before it is reported",
        }],
        "checks": checks,
        "not_applicable": na,
        "notes": "All checks: exit 0 = held on everything explored (KNOWN-FINDING lines for listed genuine defects), exit 1 + VIOLATION line = replayed, unlisted violation, exit 2 = INCONCLUSIVE (harness does not build against the tree, conformance or vacuity self-test failed).",
    }
    json.dump(m, open("/verif/MANIFEST.json", "w"), indent=1)
    print("wrote MANIFEST.json with", len(checks), "checks,", len(na), "not_applicable")

if __name__ == "__main__":
    main()
