#!/bin/bash
# Like seed.sh, but in a scratch worktree of /repo (so several seeded changes can be processed at once):
# confirms the change (suite passes with it, demonstration fails with it and passes without) and runs checks
# against the worktree through vcheck's -repo flag.
# usage: tools/seedwt.sh <seed-id> <property> <dir with patch.diff demo_test.go notes.md> <worktree> [tier] [extra properties…]
set -u
id=$1; prop=$2; src=$3; wt=$4; tier=${5:-quick}; shift 5 2>/dev/null || shift $#
extra="$@"
export GOFLAGS=-mod=mod GOPROXY=off GOSUMDB=off GOTOOLCHAIN=local
cd $wt || exit 2
git checkout -q -- . ; rm -f zz_seed_demo_test.go
out=/verif/seeded/$id; mkdir -p $out
cp $src/patch.diff $out/patch.diff; cp $src/demo_test.go $out/demo_test.go; [ -f $src/notes.md ] && cp $src/notes.md $out/notes.md
cleanup() { rm -f $wt/zz_seed_demo_test.go; git -C $wt checkout -q -- . ; rm -rf /tmp/seed-ev-$id; }
trap cleanup EXIT
cp $out/demo_test.go zz_seed_demo_test.go
base=$(go test -vet=off -count=1 -run '^TestMutantDemo' . 2>&1 | tail -1)
rm -f zz_seed_demo_test.go
if ! git apply $out/patch.diff; then echo "$id: patch does not apply"; exit 2; fi
build=$(go build ./... 2>&1 | tail -2)
suite=$(go test -vet=off -count=1 ./... 2>&1 | tail -1)
cp $out/demo_test.go zz_seed_demo_test.go
demo=$(go test -vet=off -count=1 -run '^TestMutantDemo' . 2>&1 | tail -1)
rm -f zz_seed_demo_test.go
echo "$id baseline demo: $base | build: ${build:-ok} | suite with change: $suite | demo with change: $demo"
results=""
for p in $prop $extra; do
  start=$(date +%s)
  res=$(cd /verif && timeout 3000 ./bin/vcheck -repo $wt -p $p -tier $tier -evidence /tmp/seed-ev-$id 2>&1)
  code=$?
  end=$(date +%s)
  nv=$(echo "$res" | grep -c '^VIOLATION')
  first=$(echo "$res" | grep -m1 '^violation detail' | cut -c1-400)
  echo "$id check $p ($tier): exit=$code violations=$nv time=$((end-start))s"
  echo "  $first"
  echo "$res" | grep -E '^(INCONCLUSIVE|undecided|DEGRADED)' | cut -c1-300 | head -3
  results="$results{\"property\":\"$p\",\"tier\":\"$tier\",\"exit\":$code,\"violation_lines\":$nv,\"seconds\":$((end-start))},"
done
python3 - "$id" "$prop" "$base" "$suite" "$demo" "[${results%,}]" <<'PY'
import json,sys,os
id,prop,base,suite,demo,results=sys.argv[1:7]
p='/verif/seeded/%s/meta.json'%id
old={}
if os.path.exists(p):
    try: old=json.load(open(p))
    except Exception: old={}
meta={"seed":id,"property":prop,"baseline_demo":base,"suite_with_change":suite,"demo_with_change":demo,"checks":old.get("checks",[])+json.loads(results)}
for k in ("needs_to_manifest","breaks","source","breaks_property","change","first_run"):
    if k in old: meta[k]=old[k]
json.dump(meta,open(p,'w'),indent=1)
PY
